#!/bin/bash
# usage: mkscratch.sh <dir>   -> <dir>/repo instrumented copy of /repo
set -e
export GOFLAGS=-mod=mod GOPROXY=off GOSUMDB=off GOTOOLCHAIN=local
D=$1
rm -rf $D/repo && mkdir -p $D/repo
rsync -a --exclude .git /repo/ $D/repo/
mkdir -p $D/repo/simrt && cp /verif/simrt/*.go $D/repo/simrt/
cp -r /verif/overlay/. $D/repo/ 2>/dev/null; $D/simgen $D/repo
