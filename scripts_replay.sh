#!/bin/bash
# dev helper: replay a replay file against /tmp/scr build with capture+log: scripts_replay.sh file
export GOFLAGS=-mod=mod GOPROXY=off GOSUMDB=off GOTOOLCHAIN=local
python3 - "$1" <<'PY'
import json,sys
r=json.load(open(sys.argv[1]))
r['spec'].setdefault('opts',{})['capture']='1'
json.dump(r,open('/tmp/scr/replay_cap.json','w'))
PY
cd /tmp/scr && ./worlds.test -test.run TestWorker -sim.replay /tmp/scr/replay_cap.json -sim.log > /tmp/scr/replay_out.json 2>/dev/null
python3 - <<'PY'
import json
s=open('/tmp/scr/replay_out.json').read()
s=s[s.index('{'):s.rindex('}')+1]
d=json.loads(s)
r=d['result']
print('reproduced',d['reproduced'],'trace_equal',d['trace_equal'])
for x in r.get('diag') or []: print(x[:700])
for v in r.get('violations') or []: print('VIOL',v['oracle'],v['detail'][:400])
json.dump(r.get('log'),open('/tmp/scr/replay_log.json','w'))
PY
