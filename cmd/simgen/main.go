// simgen instruments a scratch copy of rockorager/vaxis for deterministic
// simulation: every goroutine start, channel operation, select, mutex and
// atomic operation, timer callback, sync.Pool, signal registration and
// environment read is routed through the injected package
// git.sr.ht/~rockorager/vaxis/simrt. With no scheduler attached simrt passes
// everything through, so the instrumented copy still runs the repository's own
// test suite.
//
// usage: simgen [-acc] <scratch-repo-dir>
package main

import (
	"bytes"
	"flag"
	"fmt"
	"go/ast"
	"go/format"
	"go/token"
	"go/types"
	"os"
	"path/filepath"
	"sort"
	"strconv"
	"strings"

	"golang.org/x/tools/go/ast/astutil"
	"golang.org/x/tools/go/packages"
)

const modPath = "git.sr.ht/~rockorager/vaxis"
const simrtPath = modPath + "/simrt"

var (
	flagAcc = flag.Bool("acc", true, "insert field-access probes on shared structs (race oracle)")
	counts  = map[string]int{}
)

// failpoints: package path -> function names that get simrt.Failpoint.
var failpoints = map[string]map[string]string{
	modPath:                   {"handleSequence": "vaxis.handleSequence"},
	modPath + "/widgets/term": {"update": "term.update"},
}

// shared structs whose field accesses are probed (package path -> type names)
var sharedTypes = map[string]map[string]bool{
	modPath:                      {"Vaxis": true, "writer": true, "KittyImage": true, "Sixel": true, "screen": true},
	modPath + "/ansi":            {"Parser": true},
	modPath + "/widgets/term":    {"Model": true},
	modPath + "/widgets/spinner": {"Model": true},
}

func die(format string, args ...any) {
	fmt.Fprintf(os.Stderr, "simgen: "+format+"\n", args...)
	os.Exit(2)
}

func main() {
	flag.Parse()
	if flag.NArg() != 1 {
		die("usage: simgen <dir>")
	}
	dir, _ := filepath.Abs(flag.Arg(0))
	cfg := &packages.Config{
		Mode: packages.NeedName | packages.NeedFiles | packages.NeedSyntax | packages.NeedTypes |
			packages.NeedTypesInfo | packages.NeedImports | packages.NeedDeps | packages.NeedCompiledGoFiles,
		Dir: dir,
		Env: append(os.Environ(), "GOFLAGS=-mod=mod", "GOPROXY=off", "GOSUMDB=off"),
	}
	pkgs, err := packages.Load(cfg, "./", "./ansi", "./widgets/...", "./vxfw/...")
	if err != nil {
		die("load: %v", err)
	}
	bad := false
	for _, p := range pkgs {
		for _, e := range p.Errors {
			fmt.Fprintln(os.Stderr, "simgen: load error:", e)
			bad = true
		}
	}
	if bad {
		os.Exit(2)
	}
	sort.Slice(pkgs, func(i, j int) bool { return pkgs[i].PkgPath < pkgs[j].PkgPath })
	for _, p := range pkgs {
		for i, f := range p.Syntax {
			name := p.CompiledGoFiles[i]
			if !strings.HasPrefix(name, dir) {
				continue
			}
			rw := &rewriter{pkg: p, file: f, fset: p.Fset, dir: dir, fname: name}
			if rw.run() {
				var buf bytes.Buffer
				if err := format.Node(&buf, p.Fset, f); err != nil {
					die("print %s: %v", name, err)
				}
				if err := os.WriteFile(name, buf.Bytes(), 0o644); err != nil {
					die("write %s: %v", name, err)
				}
			}
		}
	}
	keys := make([]string, 0, len(counts))
	for k := range counts {
		keys = append(keys, k)
	}
	sort.Strings(keys)
	var sb strings.Builder
	for _, k := range keys {
		fmt.Fprintf(&sb, "%s=%d ", k, counts[k])
	}
	fmt.Println("simgen:", sb.String())
}

type rewriter struct {
	pkg     *packages.Package
	file    *ast.File
	fset    *token.FileSet
	dir     string
	fname   string
	changed bool
	skip    map[ast.Node]bool
	tmp     int
	needUns bool
}

func (r *rewriter) site(n ast.Node) *ast.BasicLit {
	pos := r.fset.Position(n.Pos())
	rel, _ := filepath.Rel(r.dir, pos.Filename)
	return &ast.BasicLit{Kind: token.STRING, Value: strconv.Quote(fmt.Sprintf("%s:%d", rel, pos.Line))}
}

func (r *rewriter) fresh(prefix string) *ast.Ident {
	r.tmp++
	return ast.NewIdent(fmt.Sprintf("_sim%s%d", prefix, r.tmp))
}

func simCall(name string, args ...ast.Expr) *ast.CallExpr {
	return &ast.CallExpr{Fun: &ast.SelectorExpr{X: ast.NewIdent("simrt"), Sel: ast.NewIdent(name)}, Args: args}
}

func (r *rewriter) typeOf(e ast.Expr) types.Type {
	if tv, ok := r.pkg.TypesInfo.Types[e]; ok {
		return tv.Type
	}
	return nil
}

func (r *rewriter) isChan(e ast.Expr) bool {
	t := r.typeOf(e)
	if t == nil {
		return false
	}
	_, ok := t.Underlying().(*types.Chan)
	return ok
}

// calleeObj resolves the object a call's function expression refers to.
func (r *rewriter) calleeObj(fun ast.Expr) types.Object {
	switch f := fun.(type) {
	case *ast.Ident:
		return r.pkg.TypesInfo.Uses[f]
	case *ast.SelectorExpr:
		return r.pkg.TypesInfo.Uses[f.Sel]
	case *ast.ParenExpr:
		return r.calleeObj(f.X)
	}
	return nil
}

func isPkgFunc(o types.Object, pkg, name string) bool {
	f, ok := o.(*types.Func)
	if !ok || f.Pkg() == nil {
		return false
	}
	if f.Pkg().Path() != pkg || f.Name() != name {
		return false
	}
	sig, _ := f.Type().(*types.Signature)
	return sig != nil && sig.Recv() == nil
}

func (r *rewriter) run() bool {
	r.skip = map[ast.Node]bool{}
	// strip comments that are not directives before the package clause
	var keep []*ast.CommentGroup
	for _, cg := range r.file.Comments {
		if cg.End() < r.file.Package {
			keep = append(keep, cg)
		}
	}
	r.file.Comments = keep
	r.file.Doc = nil

	astutil.Apply(r.file, r.pre, r.post)

	if r.changed {
		astutil.AddImport(r.fset, r.file, simrtPath)
		if r.needUns {
			astutil.AddImport(r.fset, r.file, "unsafe")
		}
		r.fixImports()
	}
	return r.changed
}

func (r *rewriter) pre(c *astutil.Cursor) bool {
	switch n := c.Node().(type) {
	case *ast.SelectStmt:
		for _, cl := range n.Body.List {
			cc := cl.(*ast.CommClause)
			switch s := cc.Comm.(type) {
			case *ast.SendStmt:
				r.skip[s] = true
			case *ast.ExprStmt:
				r.skip[unparen(s.X)] = true
			case *ast.AssignStmt:
				r.skip[unparen(s.Rhs[0])] = true
			}
		}
		if _, ok := c.Parent().(*ast.LabeledStmt); ok {
			die("%s: labelled select statement is not supported", r.fset.Position(n.Pos()))
		}
	case *ast.TypeSpec:
		if st, ok := n.Type.(*ast.StructType); ok && r.pkg.PkgPath == modPath+"/widgets/term" && n.Name.Name == "Model" {
			for _, f := range st.Fields.List {
				for _, nm := range f.Names {
					if nm.Name == "pty" {
						f.Type = &ast.SelectorExpr{X: ast.NewIdent("simrt"), Sel: ast.NewIdent("PTY")}
						r.changed = true
						counts["pty"]++
					}
				}
			}
		}
	case *ast.FuncDecl:
		if n.Body != nil && n.Recv != nil || n.Body != nil {
			if fp := failpoints[r.pkg.PkgPath]; fp != nil {
				if name, ok := fp[n.Name.Name]; ok {
					call := &ast.ExprStmt{X: simCall("Failpoint", &ast.BasicLit{Kind: token.STRING, Value: strconv.Quote(name)})}
					n.Body.List = append([]ast.Stmt{call}, n.Body.List...)
					r.changed = true
					counts["failpoint"]++
				}
			}
		}
	}
	return true
}

func unparen(e ast.Expr) ast.Expr {
	for {
		p, ok := e.(*ast.ParenExpr)
		if !ok {
			return e
		}
		e = p.X
	}
}

func (r *rewriter) post(c *astutil.Cursor) bool {
	if *flagAcc {
		if st, ok := c.Node().(ast.Stmt); ok && c.Index() >= 0 {
			r.probeStmt(c, st)
		}
	}
	switch n := c.Node().(type) {
	case *ast.GoStmt:
		c.Replace(r.rewriteGo(n))
		r.changed = true
		counts["go"]++
	case *ast.SendStmt:
		if r.skip[n] {
			return true
		}
		call := &ast.CallExpr{Fun: simCall("SendTo", n.Chan, r.site(n)), Args: []ast.Expr{n.Value}}
		c.Replace(&ast.ExprStmt{X: call})
		r.changed = true
		counts["send"]++
	case *ast.UnaryExpr:
		if n.Op != token.ARROW || r.skip[n] {
			return true
		}
		fn := "Recv"
		switch p := c.Parent().(type) {
		case *ast.AssignStmt:
			if len(p.Lhs) == 2 && len(p.Rhs) == 1 {
				fn = "Recv2"
			}
		case *ast.ValueSpec:
			if len(p.Names) == 2 && len(p.Values) == 1 {
				fn = "Recv2"
			}
		}
		c.Replace(simCall(fn, n.X, r.site(n)))
		r.changed = true
		counts["recv"]++
	case *ast.RangeStmt:
		if !r.isChan(n.X) {
			return true
		}
		c.Replace(r.rewriteRange(n))
		r.changed = true
		counts["range"]++
	case *ast.SelectStmt:
		c.Replace(r.rewriteSelect(n))
		r.changed = true
		counts["select"]++
	case *ast.CallExpr:
		r.rewriteCall(c, n)
	case *ast.SelectorExpr:
		// sync.Pool -> simrt.Pool
		if tn, ok := r.pkg.TypesInfo.Uses[n.Sel].(*types.TypeName); ok && tn.Pkg() != nil &&
			tn.Pkg().Path() == "sync" && tn.Name() == "Pool" {
			if id, ok := n.X.(*ast.Ident); ok {
				if _, isPkg := r.pkg.TypesInfo.Uses[id].(*types.PkgName); isPkg {
					c.Replace(&ast.SelectorExpr{X: ast.NewIdent("simrt"), Sel: ast.NewIdent("Pool")})
					r.changed = true
					counts["pool"]++
				}
			}
		}
	}
	return true
}

func (r *rewriter) rewriteGo(n *ast.GoStmt) ast.Stmt {
	t := r.fresh("t")
	site := r.site(n)
	var stmts []ast.Stmt
	stmts = append(stmts, &ast.AssignStmt{Lhs: []ast.Expr{t}, Tok: token.DEFINE, Rhs: []ast.Expr{simCall("Spawn", site)}})
	enter := &ast.ExprStmt{X: simCall("Enter", t)}
	exit := &ast.DeferStmt{Call: simCall("Exit", t)}
	if fl, ok := n.Call.Fun.(*ast.FuncLit); ok && len(n.Call.Args) == 0 {
		fl.Body.List = append([]ast.Stmt{enter, exit}, fl.Body.List...)
		stmts = append(stmts, n)
		return &ast.BlockStmt{List: stmts}
	}
	// general form: evaluate function value and arguments now, call inside a
	// wrapper goroutine
	f := r.fresh("f")
	stmts = append(stmts, &ast.AssignStmt{Lhs: []ast.Expr{f}, Tok: token.DEFINE, Rhs: []ast.Expr{n.Call.Fun}})
	var args []ast.Expr
	for _, a := range n.Call.Args {
		v := r.fresh("a")
		stmts = append(stmts, &ast.AssignStmt{Lhs: []ast.Expr{v}, Tok: token.DEFINE, Rhs: []ast.Expr{a}})
		args = append(args, v)
	}
	call := &ast.CallExpr{Fun: f, Args: args, Ellipsis: n.Call.Ellipsis}
	if n.Call.Ellipsis != token.NoPos {
		call.Ellipsis = 1
	}
	body := &ast.BlockStmt{List: []ast.Stmt{enter, exit, &ast.ExprStmt{X: call}}}
	stmts = append(stmts, &ast.GoStmt{Call: &ast.CallExpr{Fun: &ast.FuncLit{Type: &ast.FuncType{Params: &ast.FieldList{}}, Body: body}}})
	return &ast.BlockStmt{List: stmts}
}

func (r *rewriter) rewriteRange(n *ast.RangeStmt) ast.Stmt {
	ch := r.fresh("c")
	ok := r.fresh("ok")
	init := &ast.AssignStmt{Lhs: []ast.Expr{ch}, Tok: token.DEFINE, Rhs: []ast.Expr{n.X}}
	var first ast.Stmt
	recv := simCall("Recv2", ch, r.site(n))
	if n.Key == nil {
		first = &ast.AssignStmt{Lhs: []ast.Expr{ast.NewIdent("_"), ok}, Tok: token.DEFINE, Rhs: []ast.Expr{recv}}
	} else if n.Tok == token.DEFINE {
		first = &ast.AssignStmt{Lhs: []ast.Expr{n.Key, ok}, Tok: token.DEFINE, Rhs: []ast.Expr{recv}}
	} else {
		// v = range ch : assign to an existing variable
		tmpv := r.fresh("v")
		first = &ast.BlockStmt{List: []ast.Stmt{}}
		_ = tmpv
		die("%s: range-over-channel with '=' is not supported", r.fset.Position(n.Pos()))
	}
	brk := &ast.IfStmt{Cond: &ast.UnaryExpr{Op: token.NOT, X: ok}, Body: &ast.BlockStmt{List: []ast.Stmt{&ast.BranchStmt{Tok: token.BREAK}}}}
	body := &ast.BlockStmt{List: append([]ast.Stmt{first, brk}, n.Body.List...)}
	return &ast.ForStmt{Init: init, Body: body}
}

func (r *rewriter) rewriteSelect(n *ast.SelectStmt) ast.Stmt {
	var pre []ast.Stmt
	var cases []ast.Expr
	var clauses []ast.Stmt
	hasDefault := false
	idx := 0
	define := func(id *ast.Ident, e ast.Expr) {
		pre = append(pre, &ast.AssignStmt{Lhs: []ast.Expr{id}, Tok: token.DEFINE, Rhs: []ast.Expr{e}})
	}
	for _, cl := range n.Body.List {
		cc := cl.(*ast.CommClause)
		if cc.Comm == nil {
			hasDefault = true
			clauses = append(clauses, &ast.CaseClause{List: nil, Body: cc.Body})
			continue
		}
		k := &ast.BasicLit{Kind: token.INT, Value: strconv.Itoa(idx)}
		idx++
		var body []ast.Stmt
		switch s := cc.Comm.(type) {
		case *ast.SendStmt:
			ch := r.fresh("c")
			v := r.fresh("s")
			define(ch, s.Chan)
			// keep the value's type by letting CaseSendTo's closure convert it
			pre = append(pre, &ast.AssignStmt{Lhs: []ast.Expr{v}, Tok: token.DEFINE,
				Rhs: []ast.Expr{&ast.CallExpr{Fun: simCall("CaseSendTo", ch), Args: []ast.Expr{s.Value}}}})
			cases = append(cases, v)
		case *ast.ExprStmt:
			u := unparen(s.X).(*ast.UnaryExpr)
			ch := r.fresh("c")
			define(ch, u.X)
			cases = append(cases, simCall("CaseRecv", ch, ast.NewIdent("nil"), ast.NewIdent("nil")))
		case *ast.AssignStmt:
			u := unparen(s.Rhs[0]).(*ast.UnaryExpr)
			ch := r.fresh("c")
			define(ch, u.X)
			val := r.fresh("v")
			define(val, simCall("ZeroOf", ch))
			var okv ast.Expr = ast.NewIdent("nil")
			var okId *ast.Ident
			if len(s.Lhs) == 2 {
				okId = r.fresh("ok")
				pre = append(pre, &ast.DeclStmt{Decl: &ast.GenDecl{Tok: token.VAR, Specs: []ast.Spec{
					&ast.ValueSpec{Names: []*ast.Ident{okId}, Type: ast.NewIdent("bool")}}}})
				okv = &ast.UnaryExpr{Op: token.AND, X: okId}
			}
			cases = append(cases, simCall("CaseRecv", ch, &ast.UnaryExpr{Op: token.AND, X: val}, okv))
			rhs := []ast.Expr{val}
			if okId != nil {
				rhs = append(rhs, okId)
			}
			body = append(body, &ast.AssignStmt{Lhs: s.Lhs, Tok: s.Tok, Rhs: rhs})
			if s.Tok == token.DEFINE {
				// silence "declared and not used" for blank-free definitions
				for _, l := range s.Lhs {
					if id, ok := l.(*ast.Ident); ok && id.Name != "_" {
						body = append(body, &ast.AssignStmt{Lhs: []ast.Expr{ast.NewIdent("_")}, Tok: token.ASSIGN, Rhs: []ast.Expr{ast.NewIdent(id.Name)}})
					}
				}
			}
		default:
			die("%s: unsupported select clause", r.fset.Position(cc.Pos()))
		}
		clauses = append(clauses, &ast.CaseClause{List: []ast.Expr{k}, Body: append(body, cc.Body...)})
	}
	hd := "false"
	if hasDefault {
		hd = "true"
	}
	// Exactly one clause becomes the switch's default so that the statement
	// is terminating whenever the select was: the last communication clause
	// if there is one (the select's own default then becomes case -1).
	if idx > 0 {
		lastComm := -1
		for i, cl := range clauses {
			if cl.(*ast.CaseClause).List != nil {
				lastComm = i
			}
		}
		for _, cl := range clauses {
			if cc := cl.(*ast.CaseClause); cc.List == nil {
				cc.List = []ast.Expr{&ast.BasicLit{Kind: token.INT, Value: "-1"}}
			}
		}
		clauses[lastComm].(*ast.CaseClause).List = nil
	}
	args := append([]ast.Expr{r.site(n), ast.NewIdent(hd)}, cases...)
	sw := &ast.SwitchStmt{Tag: simCall("Select", args...), Body: &ast.BlockStmt{List: clauses}}
	return &ast.BlockStmt{List: append(pre, sw)}
}

// explicitRecv builds the receiver expression with embedded-field hops made
// explicit, so that its address can be taken.
func (r *rewriter) explicitRecv(sel *ast.SelectorExpr) (ast.Expr, types.Type) {
	s := r.pkg.TypesInfo.Selections[sel]
	if s == nil {
		return nil, nil
	}
	x := sel.X
	t := r.typeOf(sel.X)
	idx := s.Index()
	for _, i := range idx[:len(idx)-1] {
		st := derefStruct(t)
		if st == nil {
			return nil, nil
		}
		f := st.Field(i)
		x = &ast.SelectorExpr{X: x, Sel: ast.NewIdent(f.Name())}
		t = f.Type()
	}
	return x, t
}

func derefStruct(t types.Type) *types.Struct {
	if p, ok := t.Underlying().(*types.Pointer); ok {
		t = p.Elem()
	}
	st, _ := t.Underlying().(*types.Struct)
	return st
}

func addrOf(x ast.Expr, t types.Type) ast.Expr {
	if _, ok := t.Underlying().(*types.Pointer); ok {
		return x
	}
	return &ast.UnaryExpr{Op: token.AND, X: x}
}

func (r *rewriter) rewriteCall(c *astutil.Cursor, n *ast.CallExpr) {
	obj := r.calleeObj(n.Fun)
	if obj == nil {
		return
	}
	switch o := obj.(type) {
	case *types.Builtin:
		if o.Name() == "close" && len(n.Args) == 1 {
			c.Replace(simCall("Close", n.Args[0], r.site(n)))
			r.changed = true
			counts["close"]++
		}
		return
	case *types.Func:
		sig := o.Type().(*types.Signature)
		if sig.Recv() == nil {
			switch {
			case isPkgFunc(o, "time", "AfterFunc"):
				c.Replace(simCall("AfterFunc", n.Args[0], n.Args[1], r.site(n)))
				r.changed = true
				counts["afterfunc"]++
			case isPkgFunc(o, "time", "Sleep"):
				c.Replace(simCall("Sleep", n.Args[0]))
				r.changed = true
				counts["sleep"]++
			case isPkgFunc(o, "os/signal", "Notify"):
				c.Replace(&ast.CallExpr{Fun: &ast.SelectorExpr{X: ast.NewIdent("simrt"), Sel: ast.NewIdent("SignalNotify")}, Args: n.Args, Ellipsis: n.Ellipsis})
				r.changed = true
				counts["signal"]++
			case isPkgFunc(o, "os/signal", "Stop"):
				c.Replace(simCall("SignalStop", n.Args...))
				r.changed = true
				counts["signal"]++
			case isPkgFunc(o, "github.com/creack/pty", "StartWithAttrs"):
				c.Replace(simCall("PTYStart", n.Args...))
				r.changed = true
				counts["pty"]++
			case isPkgFunc(o, "github.com/creack/pty", "Setsize"):
				c.Replace(simCall("PTYSetsize", n.Args...))
				r.changed = true
				counts["pty"]++
			case isPkgFunc(o, "os", "Getenv"):
				c.Replace(simCall("Getenv", n.Args...))
				r.changed = true
				counts["getenv"]++
			case o.Pkg() != nil && o.Pkg().Path() == "sync/atomic" && len(n.Args) >= 1:
				n.Args[0] = simCall("AtomicP", n.Args[0], r.site(n))
				r.changed = true
				counts["atomic"]++
			}
			return
		}
		// methods
		sel, ok := n.Fun.(*ast.SelectorExpr)
		if !ok {
			return
		}
		full := o.FullName()
		var hook string
		needSite := true
		switch full {
		case "(*sync.Mutex).Lock":
			hook = "Lock"
		case "(*sync.Mutex).Unlock":
			hook, needSite = "Unlock", false
		case "(*sync.RWMutex).Lock":
			hook = "WLock"
		case "(*sync.RWMutex).Unlock":
			hook, needSite = "WUnlock", false
		case "(*sync.RWMutex).RLock":
			hook = "RLock"
		case "(*sync.RWMutex).RUnlock":
			hook, needSite = "RUnlock", false
		}
		if hook != "" {
			x, t := r.explicitRecv(sel)
			if x == nil {
				die("%s: cannot resolve mutex receiver", r.fset.Position(n.Pos()))
			}
			args := []ast.Expr{addrOf(x, t)}
			if needSite {
				args = append(args, r.site(n))
			}
			c.Replace(simCall(hook, args...))
			r.changed = true
			counts["mutex"]++
			return
		}
		if o.Pkg() != nil && o.Pkg().Path() == "sync/atomic" {
			x, t := r.explicitRecv(sel)
			if x == nil {
				return
			}
			sel.X = simCall("AtomicP", addrOf(x, t), r.site(n))
			r.changed = true
			counts["atomic"]++
		}
	}
}

// fixImports drops imports that the rewrite left unused.
func (r *rewriter) fixImports() {
	used := map[string]bool{}
	ast.Inspect(r.file, func(n ast.Node) bool {
		if s, ok := n.(*ast.SelectorExpr); ok {
			if id, ok := s.X.(*ast.Ident); ok {
				used[id.Name] = true
			}
		}
		return true
	})
	for _, imp := range append([]*ast.ImportSpec(nil), r.file.Imports...) {
		path, _ := strconv.Unquote(imp.Path.Value)
		name := filepath.Base(path)
		if imp.Name != nil {
			name = imp.Name.Name
		}
		if name == "_" || name == "." {
			continue
		}
		switch path {
		case "sync", "os/signal", "os", "time", "sync/atomic":
			if !used[name] {
				if imp.Name != nil {
					astutil.DeleteNamedImport(r.fset, r.file, imp.Name.Name, path)
				} else {
					astutil.DeleteImport(r.fset, r.file, path)
				}
			}
		}
	}
}

// ---------------------------------------------------------------- R13 probes

type access struct {
	expr  ast.Expr
	write bool
}

func (r *rewriter) sharedNamed(t types.Type) bool {
	if t == nil {
		return false
	}
	if p, ok := t.Underlying().(*types.Pointer); ok {
		t = p.Elem()
	}
	n, ok := t.(*types.Named)
	if !ok || n.Obj().Pkg() == nil {
		return false
	}
	set := sharedTypes[n.Obj().Pkg().Path()]
	return set != nil && set[n.Obj().Name()]
}

var bufMutators = map[string]bool{"Reset": true, "Write": true, "WriteString": true, "WriteByte": true, "WriteRune": true, "WriteTo": true,
	"Read": true, "ReadByte": true, "ReadRune": true, "ReadFrom": true, "ReadBytes": true, "ReadString": true, "Next": true, "Truncate": true, "Grow": true, "UnreadByte": true, "UnreadRune": true}

func (r *rewriter) isBuffer(e ast.Expr) bool {
	t := r.pkg.TypesInfo.TypeOf(e)
	if t == nil {
		return false
	}
	s := t.String()
	return s == "*bytes.Buffer" || s == "bytes.Buffer"
}

func syncish(t types.Type) bool {
	if p, ok := t.Underlying().(*types.Pointer); ok {
		t = p.Elem()
	}
	if n, ok := t.(*types.Named); ok && n.Obj().Pkg() != nil {
		switch n.Obj().Pkg().Path() {
		case "sync", "sync/atomic":
			return true
		}
		if n.Obj().Pkg().Path() == simrtPath {
			return true
		}
	}
	return false
}

// chainOf returns the probe expression for a selector chain rooted at an
// identifier of a shared struct type: the identifier plus struct-valued
// fields, up to and including the first field that is not a struct value.
func (r *rewriter) chainOf(sel *ast.SelectorExpr) ast.Expr {
	e, _ := r.chainOf2(sel)
	return e
}

// chainOf2 also reports whether the probe expression is the whole selector
// (only then is an assignment to the selector a write of the probed field).
func (r *rewriter) chainOf2(sel *ast.SelectorExpr) (ast.Expr, bool) {
	// collect the chain root.f1.f2...
	var fields []*ast.SelectorExpr
	var cur ast.Expr = sel
	for {
		s, ok := cur.(*ast.SelectorExpr)
		if !ok {
			break
		}
		fields = append([]*ast.SelectorExpr{s}, fields...)
		cur = s.X
	}
	root, ok := cur.(*ast.Ident)
	if !ok {
		return nil, false
	}
	obj := r.pkg.TypesInfo.Uses[root]
	if obj == nil {
		return nil, false
	}
	if _, isVar := obj.(*types.Var); !isVar {
		return nil, false
	}
	if !r.sharedNamed(obj.Type()) {
		return nil, false
	}
	var out ast.Expr
	for _, f := range fields {
		selInfo := r.pkg.TypesInfo.Selections[f]
		if selInfo == nil || selInfo.Kind() != types.FieldVal || len(selInfo.Index()) != 1 {
			break
		}
		ft := selInfo.Type()
		if syncish(ft) {
			break
		}
		out = f
		if _, isStruct := ft.Underlying().(*types.Struct); !isStruct {
			break
		}
		if _, named := ft.(*types.Named); named {
			// a named struct value (e.g. sync types are excluded above):
			// keep descending into its fields
		}
	}
	return out, out == ast.Expr(sel)
}

func (r *rewriter) probeStmt(c *astutil.Cursor, st ast.Stmt) {
	var accs []access
	seen := map[string]bool{}
	add := func(e ast.Expr, write bool) {
		if e == nil {
			return
		}
		var buf bytes.Buffer
		format.Node(&buf, r.fset, e)
		key := buf.String()
		if write {
			key = "W" + key
		}
		if seen[key] {
			return
		}
		seen[key] = true
		accs = append(accs, access{expr: e, write: write})
	}
	var visit func(n ast.Node, write bool)
	visitExpr := func(e ast.Expr, write bool) {
		if e != nil {
			visit(e, write)
		}
	}
	visit = func(n ast.Node, write bool) {
		switch x := n.(type) {
		case nil:
			return
		case *ast.FuncLit, *ast.BlockStmt:
			return // handled at their own statement level
		case *ast.SelectorExpr:
			if ch := r.chainOf(x); ch != nil {
				add(ch, write)
				return
			}
			visit(x.X, false)
		case *ast.UnaryExpr:
			if x.Op == token.AND {
				// address taken: the use is unknown (often a sync primitive)
				if _, ok := unparen(x.X).(*ast.SelectorExpr); ok {
					return
				}
			}
			visit(x.X, false)
		case *ast.IndexExpr:
			visit(x.X, false)
			visit(x.Index, false)
		case *ast.StarExpr:
			visit(x.X, false)
		case *ast.ParenExpr:
			visit(x.X, write)
		case *ast.CallExpr:
			// a *bytes.Buffer field of a shared struct: mutating methods and
			// handing the buffer to a callee (an io.Writer) write it
			if fs, ok := x.Fun.(*ast.SelectorExpr); ok {
				if inner, ok := unparen(fs.X).(*ast.SelectorExpr); ok && r.isBuffer(inner) && bufMutators[fs.Sel.Name] {
					if ch, whole := r.chainOf2(inner); ch != nil && whole {
						add(ch, true)
					}
				}
			}
			visit(x.Fun, false)
			for _, a := range x.Args {
				if sel, ok := unparen(a).(*ast.SelectorExpr); ok && r.isBuffer(sel) {
					if ch, whole := r.chainOf2(sel); ch != nil && whole {
						add(ch, true)
						continue
					}
				}
				visit(a, false)
			}
		case *ast.BinaryExpr:
			visit(x.X, false)
			// the right operand of && and || may never be evaluated
			if x.Op != token.LAND && x.Op != token.LOR {
				visit(x.Y, false)
			}
		case *ast.KeyValueExpr:
			visit(x.Value, false)
		case *ast.CompositeLit:
			for _, e := range x.Elts {
				visit(e, false)
			}
		case *ast.SliceExpr:
			visit(x.X, false)
			visitExpr(x.Low, false)
			visitExpr(x.High, false)
		case *ast.TypeAssertExpr:
			visit(x.X, false)
		}
	}
	switch x := st.(type) {
	case *ast.AssignStmt:
		for _, l := range x.Lhs {
			if sel, ok := unparen(l).(*ast.SelectorExpr); ok {
				if ch, whole := r.chainOf2(sel); ch != nil {
					add(ch, whole)
					continue
				}
			}
			visit(l, false)
		}
		for _, e := range x.Rhs {
			visit(e, false)
		}
	case *ast.IncDecStmt:
		if sel, ok := unparen(x.X).(*ast.SelectorExpr); ok {
			if ch, whole := r.chainOf2(sel); ch != nil {
				add(ch, whole)
			}
		}
	case *ast.ExprStmt:
		visit(x.X, false)
	case *ast.ReturnStmt:
		for _, e := range x.Results {
			visit(e, false)
		}
	case *ast.IfStmt:
		if x.Init == nil {
			visit(x.Cond, false)
		}
	case *ast.SwitchStmt:
		if x.Init == nil && x.Tag != nil {
			visit(x.Tag, false)
		}
	case *ast.RangeStmt:
		visit(x.X, false)
	case *ast.DeferStmt:
		for _, a := range x.Call.Args {
			visit(a, false)
		}
	case *ast.SendStmt:
		visit(x.Value, false)
	}
	for _, a := range accs {
		w := "false"
		if a.write {
			w = "true"
		}
		call := simCall("Acc", &ast.CallExpr{Fun: &ast.SelectorExpr{X: ast.NewIdent("unsafe"), Sel: ast.NewIdent("Pointer")},
			Args: []ast.Expr{&ast.UnaryExpr{Op: token.AND, X: a.expr}}}, ast.NewIdent(w), r.site(st))
		c.InsertBefore(&ast.ExprStmt{X: call})
		r.changed = true
		r.needUns = true
		counts["acc"]++
	}
}
