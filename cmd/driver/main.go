// driver builds an instrumented scratch copy of /repo's working tree, fans
// simulated runs out to worker processes, merges their results, minimises
// failures into replay files, applies the known-findings list and writes the
// evidence file.
//
//	driver check <ID> quick|thorough
//	driver replay <file>
//	driver selftest-determinism [ID...]
package main

import (
	"bufio"
	"context"
	"crypto/sha256"
	"encoding/hex"
	"encoding/json"
	"fmt"
	"os"
	"os/exec"
	"path/filepath"
	"runtime"
	"sort"
	"strconv"
	"strings"
	"sync"
	"time"
)

var verifDir = func() string {
	if d, err := os.Getwd(); err == nil {
		if _, err := os.Stat(filepath.Join(d, "harness")); err == nil {
			return d
		}
	}
	return "/verif"
}()

// repoDir is /repo. Background runs started with `vp run --with-repo` work on
// the snapshot of /repo made for them ($VP_RUN_REPO), so that the live tree can
// be edited meanwhile; registered commands never set it.
var repoDir = func() string {
	if d := os.Getenv("VP_RUN_REPO"); d != "" {
		return d
	}
	return "/repo"
}()

type Violation struct {
	Oracle string `json:"oracle"`
	Site   string `json:"site"`
	Detail string `json:"detail"`
}

func (v Violation) Class() string { return v.Oracle + "@" + v.Site }

type RunSpec struct {
	Prop   string            `json:"prop"`
	Tier   string            `json:"tier"`
	Seed   uint64            `json:"seed"`
	Index  int               `json:"index"`
	Replay bool              `json:"replay,omitempty"`
	W      []uint32          `json:"w,omitempty"`
	S      []uint32          `json:"s,omitempty"`
	Opts   map[string]string `json:"opts,omitempty"`
}

type RunResult struct {
	Done         bool           `json:"done"`
	Runs         int            `json:"runs"`
	WallS        float64        `json:"wall_s"`
	Prop         string         `json:"prop"`
	Index        int            `json:"index"`
	Violations   []Violation    `json:"violations"`
	Diag         []string       `json:"diag"`
	End          string         `json:"end"`
	Steps        int            `json:"steps"`
	SimMs        float64        `json:"sim_ms"`
	Trace        string         `json:"trace"`
	CaseHash     string         `json:"case"`
	Faults       map[string]int `json:"faults"`
	Probes       map[string]int `json:"probes"`
	Switches     int            `json:"switches"`
	Nontrivial   bool           `json:"nontrivial"`
	Inconclusive int            `json:"inconclusive"`
	EndState     string         `json:"end_state"`
	W            []uint32       `json:"w"`
	S            []uint32       `json:"s"`
	Desc         any            `json:"desc"`
	HarnessError string         `json:"harness_error"`
	KnownHits    map[string]int `json:"known_hits"`
	Leaked       []string       `json:"leaked"`
}

type ReplayFile struct {
	Spec      RunSpec   `json:"spec"`
	Class     string    `json:"class"`
	Violation Violation `json:"violation"`
	Trace     string    `json:"trace"`
	Desc      any       `json:"desc,omitempty"`
	Log       []string  `json:"log,omitempty"`
	Note      string    `json:"note,omitempty"`
}

type KnownFinding struct {
	ID       string   `json:"id"`
	Property string   `json:"property"`
	Also     []string `json:"also_seen_under,omitempty"`
	// Tolerance: the oracle recognises exactly this deviation (id passed to
	// the worlds) and reports hits instead of violations.
	Tolerance bool `json:"tolerance,omitempty"`
	// Class/Match: a violation of this class whose detail contains Match is
	// this finding.
	Class string `json:"class,omitempty"`
	// ClassContains: a violation whose class contains this substring is
	// this finding (the worlds tag classes with the circumstance).
	ClassContains string `json:"class_contains,omitempty"`
	Match         string `json:"match,omitempty"`
	What          string `json:"what"`
	Why           string `json:"why_not_fixed,omitempty"`
}

type KnownFile struct {
	Findings []KnownFinding `json:"findings"`
	Fixed    []string       `json:"fixed"`
}

func fatal2(format string, args ...any) {
	fmt.Fprintf(os.Stderr, "check: "+format+"\n", args...)
	os.Exit(2)
}

func goEnv() []string {
	env := os.Environ()
	env = append(env, "GOFLAGS=-mod=mod", "GOPROXY=off", "GOSUMDB=off", "GOTOOLCHAIN=local", "GOMAXPROCS=2")
	return env
}

func run(dir string, env []string, name string, args ...string) (string, error) {
	cmd := exec.Command(name, args...)
	cmd.Dir = dir
	cmd.Env = env
	out, err := cmd.CombinedOutput()
	return string(out), err
}

// buildScratch creates the instrumented copy and the worker binary.
func buildScratch(withRepoTests bool) (string, string) {
	scratch, err := os.MkdirTemp("", "vaxis-sim-")
	if err != nil {
		fatal2("mktemp: %v", err)
	}
	env := goEnv()
	for i, e := range env {
		if strings.HasPrefix(e, "GOMAXPROCS=") {
			env[i] = "GOMAXPROCS=16"
		}
	}
	repo := filepath.Join(scratch, "repo")
	if out, err := run("/", env, "rsync", "-a", "--exclude", ".git", repoDir+"/", repo+"/"); err != nil {
		cleanup(scratch)
		fatal2("rsync: %v\n%s", err, out)
	}
	os.MkdirAll(filepath.Join(repo, "simrt"), 0o755)
	if out, err := run("/", env, "sh", "-c", fmt.Sprintf("cp %s/simrt/*.go %s/simrt/ && cp -r %s/overlay/. %s/ 2>/dev/null; true", verifDir, repo, verifDir, repo)); err != nil {
		cleanup(scratch)
		fatal2("copy simrt: %v\n%s", err, out)
	}
	simgen := filepath.Join(verifDir, "bin", "simgen")
	if _, err := os.Stat(simgen); err != nil {
		if out, err := run(verifDir, env, "go1.26.8", "build", "-o", simgen, "./cmd/simgen"); err != nil {
			cleanup(scratch)
			fatal2("build simgen: %v\n%s", err, out)
		}
	}
	if out, err := run(scratch, env, simgen, repo); err != nil {
		cleanup(scratch)
		fatal2("simgen failed (instrumentation error, not a property violation): %v\n%s", err, out)
	}
	h := filepath.Join(scratch, "harness")
	if out, err := run("/", env, "rsync", "-a", verifDir+"/harness/", h+"/"); err != nil {
		cleanup(scratch)
		fatal2("copy harness: %v\n%s", err, out)
	}
	bin := filepath.Join(scratch, "worlds.test")
	var wg sync.WaitGroup
	var testOut string
	var testErr error
	if withRepoTests {
		wg.Add(1)
		go func() {
			defer wg.Done()
			testOut, testErr = run(repo, env, "go1.26.8", "test", "-vet=off", "-count=1", "./...")
		}()
	}
	out, err := run(h, env, "go1.26.8", "test", "-c", "-o", bin, "./worlds")
	wg.Wait()
	if err != nil {
		cleanup(scratch)
		fatal2("harness does not build against the current tree (build error, not a violation): %v\n%s", err, out)
	}
	if withRepoTests && testErr != nil {
		cleanup(scratch)
		fatal2("the repository's own tests fail on the instrumented copy (instrumentation or tree problem, not a violation):\n%s", testOut)
	}
	return scratch, bin
}

func cleanup(scratch string) {
	if scratch != "" && strings.Contains(scratch, "vaxis-sim-") {
		os.RemoveAll(scratch)
	}
}

func loadKnown() KnownFile {
	var k KnownFile
	b, err := os.ReadFile(filepath.Join(verifDir, "known_findings.json"))
	if err != nil {
		return k
	}
	if err := json.Unmarshal(b, &k); err != nil {
		fatal2("known_findings.json: %v", err)
	}
	return k
}

func (k KnownFile) forProp(id string) []KnownFinding {
	var out []KnownFinding
	for _, f := range k.Findings {
		if f.Property == id {
			out = append(out, f)
			continue
		}
		for _, a := range f.Also {
			if a == id {
				out = append(out, f)
			}
		}
	}
	return out
}

type phase struct {
	name  string
	opts  map[string]string
	runs  int
	wall  time.Duration
	from  int
	exact bool // indices enumerate a finite space completely
}

func optString(m map[string]string) string {
	var keys []string
	for k := range m {
		keys = append(keys, k)
	}
	sort.Strings(keys)
	var parts []string
	for _, k := range keys {
		parts = append(parts, k+"="+m[k])
	}
	return strings.Join(parts, ",")
}

type merged struct {
	evals      int
	steps      int
	simMs      float64
	faults     map[string]int
	probes     map[string]int
	known      map[string]int
	ends       map[string]int
	distinct   map[string]bool
	endStates  map[string]bool
	interleave map[string]bool
	samples    []any
	viol       map[string][]RunResult // class -> failing runs
	harnessErr []string
	inconcl    int
	diag       map[string]int
	workerWall float64
	switches   int
}

func newMerged() *merged {
	return &merged{faults: map[string]int{}, probes: map[string]int{}, known: map[string]int{}, ends: map[string]int{},
		distinct: map[string]bool{}, endStates: map[string]bool{}, interleave: map[string]bool{}, viol: map[string][]RunResult{}, diag: map[string]int{}}
}

func (m *merged) add(r RunResult, ph string) {
	m.evals++
	m.steps += r.Steps
	m.simMs += r.SimMs
	m.switches += r.Switches
	for k, v := range r.Faults {
		m.faults[k] += v
	}
	for k, v := range r.Probes {
		m.probes[k] += v
	}
	for k, v := range r.KnownHits {
		m.known[k] += v
	}
	m.ends[r.End]++
	m.inconcl += r.Inconclusive
	if r.Nontrivial {
		m.distinct[r.CaseHash+"/"+r.Trace] = true
	}
	m.interleave[r.Trace] = true
	if r.EndState != "" && len(m.endStates) < 1_000_000 {
		m.endStates[r.EndState] = true
	}
	if r.Desc != nil && len(m.samples) < 5 {
		m.samples = append(m.samples, map[string]any{"phase": ph, "index": r.Index, "end": r.End, "steps": r.Steps, "sim_ms": r.SimMs, "faults": r.Faults, "case": r.Desc})
	}
	for _, d := range r.Diag {
		if len(d) > 100 {
			d = d[:100]
		}
		m.diag[d]++
	}
	if r.HarnessError != "" {
		m.harnessErr = append(m.harnessErr, fmt.Sprintf("index %d: %s", r.Index, r.HarnessError))
	}
	for _, v := range r.Violations {
		c := v.Class()
		if len(m.viol[c]) < 40 {
			rr := r
			rr.Violations = []Violation{v}
			m.viol[c] = append(m.viol[c], rr)
		}
	}
}

func runPhase(bin, scratch, prop, tier string, seed uint64, ph phase, known string, m *merged) {
	workers := runtime.NumCPU()
	if workers > 16 {
		workers = 16
	}
	// VERIF_WORKERS lowers the worker count (background runs beside other work);
	// it never changes which run index gets which seed, only how many run at once.
	if n, err := strconv.Atoi(os.Getenv("VERIF_WORKERS")); err == nil && n >= 1 && n < workers {
		workers = n
	}
	if ph.runs < workers {
		workers = ph.runs
	}
	if workers < 1 {
		workers = 1
	}
	opts := map[string]string{}
	for k, v := range ph.opts {
		opts[k] = v
	}
	if known != "" {
		opts["known"] = known
	}
	var wg sync.WaitGroup
	outs := make([]string, workers)
	errs := make([]error, workers)
	logs := make([]string, workers)
	partsOf := make([][]string, workers)
	var hangMu sync.Mutex
	var hangs []RunResult
	for w := 0; w < workers; w++ {
		wg.Add(1)
		outs[w] = filepath.Join(scratch, fmt.Sprintf("out-%s-%d.jsonl", ph.name, w))
		go func(w int) {
			defer wg.Done()
			from := ph.from + w
			var parts []string
			budget := ph.wall
			phaseStart := time.Now()
			for attempt := 0; attempt < 400; attempt++ {
				if attempt > 0 {
					// restarts (hand-over, watchdog) share the phase's budget
					budget = ph.wall - time.Since(phaseStart)
					if budget < time.Second {
						break
					}
				}
				out := outs[w]
				if attempt > 0 {
					out = fmt.Sprintf("%s.%d", outs[w], attempt)
				}
				args := []string{"-test.run", "^TestWorker$", "-test.timeout", "6h", "-test.cpu", "1",
					"-sim.prop", prop, "-sim.tier", tier, "-sim.seed", strconv.FormatUint(seed, 10),
					"-sim.from", strconv.Itoa(from), "-sim.to", strconv.Itoa(ph.from + ph.runs), "-sim.stride", strconv.Itoa(workers),
					"-sim.out", out, "-sim.budget", budget.String(), "-sim.maxmem", "700"}
				if o := optString(opts); o != "" {
					args = append(args, "-sim.opts", o)
				}
				cmd := exec.Command(bin, args...)
				cmd.Dir = scratch
				cmd.Env = goEnv()
				o, err := cmd.CombinedOutput()
				logs[w] = string(o)
				errs[w] = err
				parts = append(parts, out)
				if nb, nerr := os.ReadFile(out + ".next"); nerr == nil {
					// the worker handed over to a fresh process (memory held
					// by runs whose goroutines are blocked for ever)
					os.Remove(out + ".next")
					var next int
					var used int64
					if _, e := fmt.Sscanf(string(nb), "%d %d", &next, &used); e == nil && next > from {
						from = next
						continue
					}
					break
				}
				hb, herr := os.ReadFile(out + ".hang")
				if herr != nil {
					break
				}
				// the watchdog stopped the worker inside a CPU loop of the code
				// under test: record it and carry on after that index
				os.Remove(out + ".hang")
				var h struct {
					Spec  RunSpec `json:"spec"`
					Desc  any     `json:"desc"`
					Site  string  `json:"site"`
					Stack string  `json:"stack"`
					WallS float64 `json:"wall_s"`
				}
				if json.Unmarshal(hb, &h) != nil {
					break
				}
				hangMu.Lock()
				hangs = append(hangs, RunResult{Prop: prop, Index: h.Spec.Index, End: "cpu-hang", W: h.Spec.W, S: h.Spec.S, Desc: h.Desc, Nontrivial: true,
					Violations: []Violation{{Oracle: "cpu-hang", Site: h.Site, Detail: fmt.Sprintf("the run made no progress for %.0f s of wall-clock time: a goroutine of the code under test is in a CPU loop that reaches no synchronisation point\n%s", h.WallS, h.Stack)}}})
				hangMu.Unlock()
				// close the partial output so that the merge accepts it
				if f, e := os.OpenFile(out, os.O_APPEND|os.O_WRONLY|os.O_CREATE, 0o644); e == nil {
					f.WriteString("\n{\"done\":true,\"runs\":0,\"wall_s\":0}\n")
					f.Close()
				}
				from = h.Spec.Index + workers
			}
			partsOf[w] = parts
		}(w)
	}
	wg.Wait()
	for _, h := range hangs {
		m.add(h, ph.name)
	}
	for w := 0; w < workers; w++ {
		for _, part := range partsOf[w] {
			f, err := os.Open(part)
			if err != nil {
				cleanup(scratch)
				fatal2("worker %d produced no output: %v\n%s", w, errs[w], tail(logs[w], 3000))
			}
			sc := bufio.NewScanner(f)
			sc.Buffer(make([]byte, 1<<20), 1<<28)
			done := false
			for sc.Scan() {
				var r RunResult
				if err := json.Unmarshal(sc.Bytes(), &r); err != nil {
					continue
				}
				if r.Done {
					done = true
					m.workerWall += r.WallS
					continue
				}
				m.add(r, ph.name)
			}
			f.Close()
			os.Remove(part)
			if !done {
				cleanup(scratch)
				fatal2("worker %d crashed (harness problem, not a violation): %v\n%s", w, errs[w], tail(logs[w], 6000))
			}
		}
	}
}

func tail(s string, n int) string {
	if len(s) > n {
		return s[len(s)-n:]
	}
	return s
}

func classFile(class string) string {
	h := sha256.Sum256([]byte(class))
	clean := strings.Map(func(r rune) rune {
		if (r >= 'a' && r <= 'z') || (r >= 'A' && r <= 'Z') || (r >= '0' && r <= '9') || r == '-' {
			return r
		}
		return '_'
	}, class)
	if len(clean) > 60 {
		clean = clean[:60]
	}
	return clean + "-" + hex.EncodeToString(h[:4])
}

func matchKnown(kf []KnownFinding, v Violation) *KnownFinding {
	for i, k := range kf {
		if k.Tolerance || (k.Class == "" && k.ClassContains == "") {
			continue
		}
		if k.Class != "" && k.Class != v.Class() {
			continue
		}
		if k.ClassContains != "" && !strings.Contains(v.Class(), k.ClassContains) {
			continue
		}
		if k.Match == "" || strings.Contains(v.Detail, k.Match) {
			return &kf[i]
		}
	}
	return nil
}

func main() {
	if len(os.Args) < 2 {
		fatal2("usage: driver check <ID> <tier> | replay <file> | selftest-determinism")
	}
	switch os.Args[1] {
	case "check":
		if len(os.Args) < 3 {
			fatal2("usage: driver check <ID> [quick|thorough]")
		}
		tier := "quick"
		if len(os.Args) > 3 {
			tier = os.Args[3]
		}
		if t := os.Getenv("VERIF_TIER"); t == "quick" || t == "thorough" {
			tier = t
		}
		os.Exit(check(os.Args[2], tier))
	case "replay":
		if len(os.Args) < 3 {
			fatal2("usage: driver replay <file>")
		}
		os.Exit(replay(os.Args[2]))
	case "selftest-determinism":
		os.Exit(selftestDeterminism(os.Args[2:]))
	default:
		fatal2("unknown command %q", os.Args[1])
	}
}

func seedEnv() uint64 {
	if s := os.Getenv("VERIF_SEED"); s != "" {
		if v, err := strconv.ParseUint(s, 10, 64); err == nil {
			return v
		}
		if v, err := strconv.ParseInt(s, 10, 64); err == nil {
			return uint64(v)
		}
	}
	return 1
}

func check(id, tier string) int {
	cfg, ok := props[id]
	if !ok {
		fatal2("no check for property %s", id)
	}
	seed := seedEnv()
	start := time.Now()
	kf := loadKnown()
	mine := kf.forProp(id)
	var tol []string
	for _, k := range mine {
		if k.Tolerance {
			tol = append(tol, k.ID)
		}
	}
	scratch, bin := buildScratch(true)
	defer cleanup(scratch)
	buildS := time.Since(start).Seconds()
	fmt.Printf("check %s %s: seed=%d build=%.1fs\n", id, tier, seed, buildS)
	m := newMerged()
	phases := cfg.phases(tier)
	runStart := time.Now()
	exhaustive := false
	for _, ph := range phases {
		runPhase(bin, scratch, id, tier, seed, ph, strings.Join(tol, "+"), m)
		if ph.exact {
			exhaustive = true
		}
	}
	runS := time.Since(runStart).Seconds()
	if len(m.harnessErr) > 0 {
		fmt.Fprintf(os.Stderr, "check: harness errors (the machinery is broken, nothing is claimed):\n%s\n", strings.Join(m.harnessErr[:min(3, len(m.harnessErr))], "\n"))
		return 2
	}
	if m.evals == 0 {
		fatal2("no runs executed")
	}
	// classify violations
	exit := 0
	var violLines []string
	knownSeen := map[string]int{}
	for k, v := range m.known {
		knownSeen[k] += v
	}
	var classes []string
	for c := range m.viol {
		classes = append(classes, c)
	}
	sort.Strings(classes)
	nviol := 0
	os.MkdirAll(filepath.Join(verifDir, "replays", id), 0o755)
	for _, c := range classes {
		runs := m.viol[c]
		// split runs of this class into known and unknown
		var unknown []RunResult
		for _, r := range runs {
			if k := matchKnown(mine, r.Violations[0]); k != nil {
				knownSeen[k.ID]++
			} else {
				unknown = append(unknown, r)
			}
		}
		if len(unknown) == 0 {
			continue
		}
		nviol += len(unknown)
		// minimise the smallest failing run of the class
		sort.Slice(unknown, func(i, j int) bool {
			return len(unknown[i].W)+len(unknown[i].S) < len(unknown[j].W)+len(unknown[j].S)
		})
		r := unknown[0]
		rf := ReplayFile{Spec: RunSpec{Prop: id, Tier: tier, Seed: seed, Index: r.Index, Replay: true, W: r.W, S: r.S, Opts: withKnown(cfg.optsFor(tier, r.Index), tol)},
			Class: c, Violation: r.Violations[0], Trace: r.Trace, Desc: r.Desc}
		path := filepath.Join(verifDir, "replays", id, classFile(c)+".json")
		raw := filepath.Join(scratch, "raw-replay.json")
		b, _ := json.Marshal(rf)
		os.WriteFile(raw, b, 0o644)
		budget := "20s"
		if tier == "thorough" {
			budget = "60s"
		}
		// a shrinking candidate may run into a CPU loop of the code under
		// test, which no budget inside the worker can interrupt: the whole
		// minimisation gets a hard wall-clock limit
		shrinkCtx, cancelShrink := context.WithTimeout(context.Background(), 3*time.Minute)
		cmd := exec.CommandContext(shrinkCtx, bin, "-test.run", "^TestWorker$", "-test.timeout", "1h", "-sim.shrink", raw, "-sim.shrinkout", path, "-sim.shrinkbudget", budget)
		cmd.Dir = scratch
		cmd.Env = goEnv()
		if strings.HasPrefix(c, "cpu-hang@") {
			// every execution of such a case costs the watchdog's full
			// wall-clock limit: keep the original run as the replay
			bi, _ := json.MarshalIndent(rf, "", " ")
			os.WriteFile(path, bi, 0o644)
		} else if out, err := cmd.CombinedOutput(); err != nil {
			// keep the un-minimised replay
			bi, _ := json.MarshalIndent(rf, "", " ")
			os.WriteFile(path, bi, 0o644)
			fmt.Fprintf(os.Stderr, "check: minimisation failed (%v), kept the original run as replay\n%s\n", err, tail(string(out), 800))
		}
		cancelShrink()
		// verify the replay in a fresh process
		ok, same, _ := replayOnce(bin, scratch, path)
		if !ok || !same {
			fmt.Fprintf(os.Stderr, "check: replay of %s did not reproduce exactly (reproduced=%v trace_equal=%v): the machinery is not deterministic here; reporting itself broken\n", path, ok, same)
			return 2
		}
		d := r.Violations[0].Detail
		if i := strings.IndexByte(d, '\n'); i > 0 {
			d = d[:i]
		}
		fmt.Printf("violation class %s (%d runs, e.g. index %d): %s\n", c, len(unknown), r.Index, d)
		violLines = append(violLines, fmt.Sprintf("VIOLATION property=%s replay=%s", id, path))
		exit = 1
	}
	for _, k := range mine {
		fmt.Printf("KNOWN-FINDING: property=%s %s: %s (observed %d times in this run)\n", id, k.ID, k.What, knownSeen[k.ID])
	}
	for _, l := range violLines {
		fmt.Println(l)
	}
	// evidence
	wall := time.Since(start).Seconds()
	var stuck []string
	for _, p := range cfg.wantProbes {
		if m.probes[p]+m.faults[p] == 0 {
			stuck = append(stuck, p)
		}
	}
	ev := map[string]any{
		"property_id": id,
		"tier":        tier,
		"seed":        int64(seed),
		"level":       cfg.level,
		"wall_s":      wall,
		"violations":  nviol,
		"assumptions": cfg.assumptions,
		"coverage": map[string]any{
			"evaluations":              m.evals,
			"distinct_nontrivial":      len(m.distinct),
			"rule":                     cfg.rule,
			"samples":                  m.samples,
			"exhaustive":               exhaustive && cfg.exhaustiveClaim(tier),
			"phases":                   phaseNames(phases),
			"steps":                    m.steps,
			"context_switches":         m.switches,
			"simulated_time_s":         m.simMs / 1000,
			"runs_per_hour":            float64(m.evals) / runS * 3600,
			"run_phase_wall_s":         runS,
			"build_wall_s":             buildS,
			"worker_cpu_s":             m.workerWall,
			"run_seeds":                fmt.Sprintf("run i uses splitmix64(VERIF_SEED=%d, property, i), i in [0,%d)", seed, m.evals),
			"faults_fired":             m.faults,
			"probes":                   m.probes,
			"probes_stuck_at_0":        stuck,
			"distinct_interleavings":   len(m.interleave),
			"distinct_end_states":      len(m.endStates),
			"run_endings":              m.ends,
			"inconclusive":             m.inconcl,
			"known_findings_hit":       knownSeen,
			"out_of_scope_diagnostics": m.diag,
			"components":               map[string]any{"real": cfg.real, "stub": cfg.stub},
		},
	}
	os.MkdirAll(filepath.Join(verifDir, "evidence"), 0o755)
	eb, _ := json.MarshalIndent(ev, "", " ")
	if err := os.WriteFile(filepath.Join(verifDir, "evidence", id+".json"), eb, 0o644); err != nil {
		fatal2("write evidence: %v", err)
	}
	fmt.Printf("check %s %s: %d runs, %d distinct non-trivial, %d steps, %.0f runs/h, violations=%d, wall=%.1fs\n",
		id, tier, m.evals, len(m.distinct), m.steps, float64(m.evals)/runS*3600, nviol, wall)
	if len(stuck) > 0 {
		fmt.Printf("note: probes stuck at zero: %v\n", stuck)
	}
	return exit
}

func withKnown(o map[string]string, tol []string) map[string]string {
	out := map[string]string{}
	for k, v := range o {
		out[k] = v
	}
	if len(tol) > 0 {
		out["known"] = strings.Join(tol, "+")
	}
	return out
}

func phaseNames(ps []phase) []string {
	var out []string
	for _, p := range ps {
		out = append(out, fmt.Sprintf("%s: up to %d runs / %s %s", p.name, p.runs, p.wall, optString(p.opts)))
	}
	return out
}

func replayOnce(bin, scratch, path string) (reproduced, traceEqual bool, out string) {
	cmd := exec.Command(bin, "-test.run", "^TestWorker$", "-test.timeout", "1h", "-sim.replay", path)
	cmd.Dir = scratch
	cmd.Env = goEnv()
	b, _ := cmd.CombinedOutput()
	out = string(b)
	if hb, err := os.ReadFile(path + ".hang"); err == nil {
		os.Remove(path + ".hang")
		var h struct {
			Site string `json:"site"`
		}
		var rf ReplayFile
		rb, _ := os.ReadFile(path)
		json.Unmarshal(rb, &rf)
		// where the wall-clock watchdog finds the spinning goroutine is a
		// matter of sampling: the class is "the run makes no progress"
		if json.Unmarshal(hb, &h) == nil && strings.HasPrefix(rf.Class, "cpu-hang@") {
			return true, true, "replay: the run hangs again (in " + h.Site + ")"
		}
		return false, false, "replay: the run hangs (in " + h.Site + "); the recorded violation was " + rf.Class
	}
	// the JSON document is the first thing printed
	i := strings.Index(out, "{")
	j := strings.LastIndex(out, "}")
	if i < 0 || j < i {
		return false, false, out
	}
	var doc struct {
		Reproduced bool `json:"reproduced"`
		TraceEqual bool `json:"trace_equal"`
	}
	if err := json.Unmarshal([]byte(out[i:j+1]), &doc); err != nil {
		return false, false, out
	}
	return doc.Reproduced, doc.TraceEqual, out
}

func replay(path string) int {
	if abs, err := filepath.Abs(path); err == nil {
		path = abs
	}
	b, err := os.ReadFile(path)
	if err != nil {
		fatal2("%v", err)
	}
	var rf ReplayFile
	if err := json.Unmarshal(b, &rf); err != nil {
		fatal2("%v", err)
	}
	scratch, bin := buildScratch(false)
	defer cleanup(scratch)
	ok, same, out := replayOnce(bin, scratch, path)
	fmt.Println(tail(out, 6000))
	if ok {
		if !same {
			fmt.Printf("replay: violation class reproduced but the schedule trace differs (tree changed since the replay was recorded?)\n")
		}
		fmt.Printf("VIOLATION property=%s replay=%s\n", rf.Spec.Prop, path)
		return 1
	}
	fmt.Printf("replay: %s not reproduced on the current tree\n", rf.Class)
	return 0
}

// selftestDeterminism runs a sample of indices of each property twice per
// configuration, in separate processes at different -test.cpu values, and
// diffs the full schedule traces.
func selftestDeterminism(ids []string) int {
	if len(ids) == 0 {
		for id := range props {
			ids = append(ids, id)
		}
		sort.Strings(ids)
	}
	scratch, bin := buildScratch(false)
	defer cleanup(scratch)
	bad := 0
	for _, id := range ids {
		n := 600
		if id == "C12" || id == "C13" {
			// ~55 000 scheduler steps per run: full logs of 600 runs x 5 would not fit
			n = 120
		}
		type key struct{ idx int }
		ref := map[int]string{}
		procs := 0
		for _, cpu := range []string{"1", "4", "16", "1", "16"} {
			// 6 processes per cpu setting, 100 indices each
			var wg sync.WaitGroup
			var mu sync.Mutex
			for p := 0; p < 6; p++ {
				wg.Add(1)
				procs++
				go func(p int) {
					defer wg.Done()
					out := filepath.Join(scratch, fmt.Sprintf("det-%s-%s-%d.jsonl", id, cpu, p))
					cmd := exec.Command(bin, "-test.run", "^TestWorker$", "-test.cpu", cpu, "-sim.prop", id, "-sim.from", strconv.Itoa(p*n/6), "-sim.to", strconv.Itoa((p+1)*n/6), "-sim.out", out, "-sim.log")
					cmd.Dir = scratch
					env := os.Environ()
					env = append(env, "GOMAXPROCS="+cpu)
					cmd.Env = env
					cmd.CombinedOutput()
					f, err := os.Open(out)
					if err != nil {
						mu.Lock()
						bad++
						mu.Unlock()
						return
					}
					defer f.Close()
					defer os.Remove(out)
					sc := bufio.NewScanner(f)
					sc.Buffer(make([]byte, 1<<20), 1<<28)
					for sc.Scan() {
						var r struct {
							Done  bool        `json:"done"`
							Index int         `json:"index"`
							Trace string      `json:"trace"`
							Log   []string    `json:"log"`
							End   string      `json:"end"`
							Viol  []Violation `json:"violations"`
						}
						if json.Unmarshal(sc.Bytes(), &r) != nil || r.Done {
							continue
						}
						h := sha256.New()
						for _, l := range r.Log {
							h.Write([]byte(l))
							h.Write([]byte{'\n'})
						}
						for _, v := range r.Viol {
							h.Write([]byte(v.Class()))
						}
						sig := r.Trace + ":" + r.End + ":" + hex.EncodeToString(h.Sum(nil)[:8])
						mu.Lock()
						if prev, ok := ref[r.Index]; ok {
							if prev != sig {
								bad++
								fmt.Printf("NONDETERMINISM property=%s index=%d cpu=%s: %s vs %s\n", id, r.Index, cpu, prev, sig)
							}
						} else {
							ref[r.Index] = sig
						}
						mu.Unlock()
					}
				}(p)
			}
			wg.Wait()
		}
		fmt.Printf("selftest-determinism %s: %d indices x 5 executions in %d processes (-test.cpu 1,4,16,1,16): mismatches so far %d\n", id, len(ref), procs, bad)
	}
	if bad > 0 {
		return 1
	}
	return 0
}
