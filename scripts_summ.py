import json,collections,sys
viol=collections.Counter(); ends=collections.Counter(); steps=0;n=0
ex={}; faults=collections.Counter(); probes=collections.Counter(); diag=collections.Counter()
skip=sys.argv[2] if len(sys.argv)>2 else None
for l in open(sys.argv[1]):
    r=json.loads(l)
    if 'done' in r: print(r); continue
    n+=1; steps+=r['steps']; ends[r['end']]+=1
    if r.get('harness_error'): print('HARNESS',r['index'],r['harness_error'][:1500]); 
    for k,v in (r.get('faults') or {}).items(): faults[k]+=v
    for k,v in (r.get('probes') or {}).items(): probes[k]+=v
    for d in r.get('diag') or []: diag[d[:80]]+=1
    for v in r.get('violations',[]):
        if skip and skip in v['detail']: continue
        c=v['oracle']+'@'+v['site']
        viol[c]+=1
        if c not in ex or len(v['detail'])<len(ex[c][1]): ex[c]=(r['index'],v['detail'])
print('runs',n,'steps',steps,dict(ends)); print('viol',dict(viol)); print('faults',dict(faults)); print('probes',dict(probes)); print('diag',dict(diag))
for k,(i,d) in ex.items(): print('---',k,'index',i); print(d[:1800])
