#!/bin/bash
# dev helper: rebuild harness against /tmp/scr/repo and run a range
# usage: devrun.sh PROP FROM TO [extra flags]
export GOFLAGS=-mod=mod GOPROXY=off GOSUMDB=off GOTOOLCHAIN=local
set -e
rsync -a --delete --exclude go.sum /verif/harness/ /tmp/scr/harness/
[ -f /tmp/scr/harness/go.sum ] || cp /repo/go.sum /tmp/scr/harness/go.sum
cd /tmp/scr/harness && go1.26.8 test -c -o /tmp/scr/worlds.test ./worlds
cd /tmp/scr && P=$1; F=$2; T=$3; shift 3
./worlds.test -test.run TestWorker -sim.prop $P -sim.from $F -sim.to $T -sim.out /tmp/scr/o.jsonl "$@" 2>&1 | tail -3
python3 /verif/scripts_summ.py /tmp/scr/o.jsonl
