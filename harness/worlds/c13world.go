package worlds

import (
	"fmt"
	"strings"
	"time"

	"git.sr.ht/~rockorager/vaxis"
	"git.sr.ht/~rockorager/vaxis/simrt"
)

// C13: keys, paste boundaries and mouse events handed to the embedded terminal
// (term.Model.Update) must arrive at the application running inside it.

type fwdModes struct {
	DECCKM, DECKPAM, Paste   bool
	M1000, M1002, M1003, SGR bool
	AltScroll                bool
	Primary                  bool // the child switched back to the primary screen
}

func (m fwdModes) String() string {
	var on []string
	for _, p := range []struct {
		n string
		v bool
	}{{"DECCKM", m.DECCKM}, {"DECKPAM", m.DECKPAM}, {"paste(2004)", m.Paste}, {"1000", m.M1000}, {"1002", m.M1002}, {"1003", m.M1003}, {"SGR(1006)", m.SGR}, {"alt-scroll(1007)", m.AltScroll}, {"primary-screen", m.Primary}} {
		if p.v {
			on = append(on, p.n)
		}
	}
	return strings.Join(on, " ")
}

type fwdItem struct {
	Kind  int // 0 key, 1 paste start, 2 paste end, 3 mouse
	Key   vaxis.Key
	Mouse vaxis.Mouse
	Desc  string
	// alternative binding an application may use for a shifted printable key
	AltCode rune
	AltMods vaxis.ModifierMask
	Keypad  bool
	// Locked: the event carries lock modifiers only; it must arrive as the
	// chord without them
	Locked bool
	Want   vaxis.ModifierMask
}

var fwdSpecials = []struct {
	code rune
	name string
}{{vaxis.KeyUp, "Up"}, {vaxis.KeyDown, "Down"}, {vaxis.KeyLeft, "Left"}, {vaxis.KeyRight, "Right"}, {vaxis.KeyHome, "Home"}, {vaxis.KeyEnd, "End"},
	{vaxis.KeyInsert, "Insert"}, {vaxis.KeyDelete, "Delete"}, {vaxis.KeyPgUp, "PgUp"}, {vaxis.KeyPgDown, "PgDown"},
	{vaxis.KeyF01, "F1"}, {vaxis.KeyF02, "F2"}, {vaxis.KeyF03, "F3"}, {vaxis.KeyF04, "F4"}, {vaxis.KeyF05, "F5"}, {vaxis.KeyF06, "F6"},
	{vaxis.KeyF07, "F7"}, {vaxis.KeyF08, "F8"}, {vaxis.KeyF09, "F9"}, {vaxis.KeyF10, "F10"}, {vaxis.KeyF11, "F11"}, {vaxis.KeyF12, "F12"}}

func modString(m vaxis.ModifierMask) string {
	s := ""
	if m&vaxis.ModCtrl != 0 {
		s += "Ctrl+"
	}
	if m&vaxis.ModAlt != 0 {
		s += "Alt+"
	}
	if m&vaxis.ModShift != 0 {
		s += "Shift+"
	}
	return s
}

var shiftedOf = map[rune]rune{'1': '!', '2': '@', '3': '#', '4': '$', '5': '%', '6': '^', '7': '&', '8': '*', '9': '(', '0': ')',
	'-': '_', '=': '+', '[': '{', ']': '}', ';': ':', '\'': '"', ',': '<', '.': '>', '/': '?', '`': '~', '\\': '|'}

// fwdUniverse lists every chord the xterm legacy encoding expresses
// unambiguously (xterm ctlseqs, "PC-Style Function Keys" and the usual
// meta-sends-escape convention), written from that document, not from the
// widget's tables.
func fwdUniverse() []fwdItem {
	var out []fwdItem
	key := func(desc string, k vaxis.Key) *fwdItem {
		k.EventType = vaxis.EventPress
		out = append(out, fwdItem{Kind: 0, Key: k, Desc: modString(k.Modifiers) + desc})
		return &out[len(out)-1]
	}
	// special keys: every combination of Shift, Alt and Ctrl (CSI 1;m X / CSI n;m ~)
	for _, sp := range fwdSpecials {
		for m := 0; m < 8; m++ {
			var mods vaxis.ModifierMask
			if m&1 != 0 {
				mods |= vaxis.ModShift
			}
			if m&2 != 0 {
				mods |= vaxis.ModAlt
			}
			if m&4 != 0 {
				mods |= vaxis.ModCtrl
			}
			key(sp.name, vaxis.Key{Keycode: sp.code, Modifiers: mods})
		}
	}
	// Caps Lock and Num Lock are no part of a chord: with only those set a
	// special key is the plain key (and follows the cursor-key mode)
	for _, sp := range fwdSpecials {
		for _, lock := range []vaxis.ModifierMask{vaxis.ModCapsLock, vaxis.ModNumLock, vaxis.ModCapsLock | vaxis.ModNumLock} {
			it := key(sp.name+"(lock on)", vaxis.Key{Keycode: sp.code, Modifiers: lock})
			it.Want = 0
			it.Locked = true
		}
	}
	// named C0 keys: plain and with Alt (ESC prefix); Shift+Tab is CSI Z
	for _, n := range []struct {
		code rune
		name string
	}{{vaxis.KeyEnter, "Enter"}, {vaxis.KeyTab, "Tab"}, {vaxis.KeyBackspace, "Backspace"}, {vaxis.KeyEsc, "Escape"}, {vaxis.KeySpace, "Space"}} {
		k := vaxis.Key{Keycode: n.code}
		if n.code == vaxis.KeySpace {
			k.Text = " "
		}
		key(n.name, k)
		if n.code != vaxis.KeyEsc && n.code != vaxis.KeySpace {
			key(n.name, vaxis.Key{Keycode: n.code, Modifiers: vaxis.ModAlt})
		}
	}
	key("Tab", vaxis.Key{Keycode: vaxis.KeyTab, Modifiers: vaxis.ModShift})
	// letters
	for c := 'a'; c <= 'z'; c++ {
		up := c - 32
		key(string(c), vaxis.Key{Keycode: c, Text: string(c)})
		it := key(string(c), vaxis.Key{Keycode: c, ShiftedCode: up, Text: string(up), Modifiers: vaxis.ModShift})
		it.AltCode, it.AltMods = up, 0
		key(string(c), vaxis.Key{Keycode: c, Modifiers: vaxis.ModAlt})
		switch up {
		case 'O', 'P', 'X':
			// ESC O, ESC P and ESC X introduce SS3, DCS and SOS: the
			// legacy encoding of these chords is ambiguous by construction
		default:
			it = key(string(c), vaxis.Key{Keycode: c, ShiftedCode: up, Modifiers: vaxis.ModAlt | vaxis.ModShift})
			it.AltCode, it.AltMods = up, vaxis.ModAlt
		}
		switch c {
		case 'h', 'i', 'j', 'm':
			// Ctrl+h/i/j/m are Backspace/Tab/LF/Enter on the wire
		default:
			key(string(c), vaxis.Key{Keycode: c, Modifiers: vaxis.ModCtrl})
			key(string(c), vaxis.Key{Keycode: c, Modifiers: vaxis.ModCtrl | vaxis.ModAlt})
		}
	}
	// Ctrl with the punctuation keys of the C0 range: ^\ ^] ^^ ^_ (Ctrl+[ is
	// the Escape key itself and Ctrl+@ / Ctrl+Space are NUL: left out)
	for _, c := range "\\]^_" {
		key(string(c), vaxis.Key{Keycode: c, Modifiers: vaxis.ModCtrl})
	}
	// digits and punctuation: plain, Alt, and Shift through the shifted character
	for _, c := range "0123456789-=[];',./`\\" {
		key(string(c), vaxis.Key{Keycode: c, Text: string(c)})
		if c >= 0x30 && c != '[' && c != ']' && c != '\\' {
			// Alt is an ESC prefix: before a byte of 0x20-0x2F ESC starts
			// an escape sequence with intermediates, ESC [ ] \ are CSI, OSC
			// and ST - ambiguous by construction, not part of the statement
			key(string(c), vaxis.Key{Keycode: c, Modifiers: vaxis.ModAlt})
		}
		sh := shiftedOf[c]
		it := key(string(c), vaxis.Key{Keycode: c, ShiftedCode: sh, Text: string(sh), Modifiers: vaxis.ModShift})
		it.AltCode, it.AltMods = sh, 0
	}
	// other scripts
	for _, c := range "éß中λ" {
		key(string(c), vaxis.Key{Keycode: c, Text: string(c)})
		key(string(c), vaxis.Key{Keycode: c, Modifiers: vaxis.ModAlt})
	}
	// numeric keypad (reported as such by a host with the kitty keyboard
	// protocol): digits in numeric mode, SS3 p..y in application mode
	for i := 0; i < 10; i++ {
		it := key(fmt.Sprintf("KP_%d", i), vaxis.Key{Keycode: vaxis.KeyKeyPad0 + rune(i), Text: string(rune('0' + i))})
		it.AltCode, it.AltMods = rune('0'+i), 0
		it.Keypad = true
	}
	out = append(out, fwdItem{Kind: 1, Desc: "paste-start"}, fwdItem{Kind: 2, Desc: "paste-end"})
	return out
}

var fwdKeys = fwdUniverse()

func (w *nestedWorld) build13(t *simrt.Tape, spec RunSpec) {
	w.frames = nil
	idx := spec.Index - optInt(spec.Opts, "base", 0)
	if idx < 0 {
		idx = 0
	}
	bits := idx % 128
	if t.Draw(4) == 0 {
		bits = t.Draw(128)
	}
	w.modes = fwdModes{DECCKM: bits&1 != 0, DECKPAM: bits&2 != 0, Paste: bits&4 != 0, M1000: bits&8 != 0, M1002: bits&16 != 0, M1003: bits&32 != 0, SGR: bits&64 != 0}
	w.modes.AltScroll = t.Draw(2) == 0
	w.modes.Primary = t.Draw(3) == 0
	if w.rows < 2 {
		w.rows = 2
	}
	n := 24 + t.Draw(24)
	sweep := (idx / 128) * 16
	for i := 0; i < n; i++ {
		switch {
		case i < 16:
			// walked: every chord is visited under every mode combination
			w.items = append(w.items, fwdKeys[(sweep+i)%len(fwdKeys)])
		case t.Draw(3) == 0:
			w.items = append(w.items, fwdKeys[t.Draw(len(fwdKeys))])
		default:
			btns := []vaxis.MouseButton{vaxis.MouseLeftButton, vaxis.MouseMiddleButton, vaxis.MouseRightButton, vaxis.MouseNoButton, vaxis.MouseWheelUp, vaxis.MouseWheelDown}
			m := vaxis.Mouse{Button: btns[t.Draw(len(btns))], EventType: []vaxis.EventType{vaxis.EventPress, vaxis.EventRelease, vaxis.EventMotion}[t.Draw(3)]}
			switch t.Draw(4) {
			case 0:
				m.Col, m.Row = 0, 0
			case 1:
				m.Col, m.Row = w.cols-1, w.rows-1
			case 2:
				m.Col, m.Row = 94+t.Draw(4), 94+t.Draw(4) // around the legacy encoding's 95 boundary
			default:
				m.Col, m.Row = t.Draw(300), t.Draw(120)
			}
			switch {
			case m.Button == vaxis.MouseWheelUp || m.Button == vaxis.MouseWheelDown:
				m.EventType = vaxis.EventPress
			case m.Button == vaxis.MouseNoButton:
				m.EventType = vaxis.EventMotion
			}
			w.items = append(w.items, fwdItem{Kind: 3, Mouse: m, Desc: fmt.Sprintf("mouse button=%d type=%d at col %d row %d", m.Button, m.EventType, m.Col, m.Row)})
		}
	}
}

// drainInner collects the events the inner application has received.
func (w *nestedWorld) drainInner() []vaxis.Event {
	var out []vaxis.Event
	for {
		var ev vaxis.Event
		var ok bool
		if simrt.Select("inner.drain", true, simrt.CaseRecv(w.inner.Events(), &ev, &ok)) < 0 || !ok {
			return out
		}
		switch ev.(type) {
		case vaxis.Key, vaxis.Mouse, vaxis.PasteStartEvent, vaxis.PasteEndEvent:
			out = append(out, ev)
		}
	}
}

func (w *nestedWorld) run13() {
	// the child selects its input modes
	sr := func(on bool, n int) string {
		if on {
			return fmt.Sprintf("\x1b[?%dh", n)
		}
		return fmt.Sprintf("\x1b[?%dl", n)
	}
	m := w.modes
	var b strings.Builder
	b.WriteString(sr(m.DECCKM, 1))
	if m.DECKPAM {
		b.WriteString("\x1b=")
	} else {
		b.WriteString("\x1b>")
	}
	if m.Primary {
		// leaving the alternate screen switches alternate scroll off in
		// some emulators: select the modes afterwards
		b.WriteString("\x1b[?1049l")
	}
	b.WriteString(sr(m.Paste, 2004) + sr(m.M1000, 1000) + sr(m.M1002, 1002) + sr(m.M1003, 1003) + sr(m.SGR, 1006) + sr(m.AltScroll, 1007))
	w.pty.feed([]byte(b.String()))
	w.settle()
	snap := w.vt.SimSnapshot()
	got := fwdModes{DECCKM: snap.Modes["decckm"], DECKPAM: snap.Modes["deckpam"], Paste: snap.Modes["paste"], M1000: snap.Modes["mouseButtons"], M1002: snap.Modes["mouseDrag"], M1003: snap.Modes["mouseMotion"], SGR: snap.Modes["mouseSGR"], AltScroll: m.AltScroll, Primary: !snap.Modes["smcup"]}
	if got != m {
		w.res.Violate("mode-not-taken", "term.Model", "the child selected modes [%s]; the widget holds [%s]", m, got)
		return
	}
	w.drainInner()
	for i, it := range w.items {
		if len(w.res.Violations) > 0 || w.panicEv != "" {
			return
		}
		mark := len(w.pty.fromEmu)
		w.res.Fault([]string{"key-forwarded", "paste-forwarded", "paste-forwarded", "mouse-forwarded"}[it.Kind])
		switch it.Kind {
		case 0:
			w.vt.Update(it.Key)
		case 1:
			w.vt.Update(vaxis.PasteStartEvent{})
		case 2:
			w.vt.Update(vaxis.PasteEndEvent{})
		case 3:
			w.vt.Update(it.Mouse)
		}
		// far longer than the Escape disambiguation delay: a forwarded
		// Escape key stands alone
		simrt.Sleep(time.Second)
		w.settle()
		raw := string(w.pty.fromEmu[mark:])
		evs := w.drainInner()
		w.fwdDone++
		w.judge13(i, it, raw, evs)
	}
}

func (w *nestedWorld) judge13(i int, it fwdItem, raw string, evs []vaxis.Event) {
	m := w.modes
	fail := func(aspect, format string, args ...any) {
		w.res.Violate("forwarding", aspect, "item %d (%s) under child modes [%s]: "+format+"\nthe widget wrote %q; the application inside received %s", append(append([]any{i, it.Desc, m}, args...), raw, eventsString(evs))...)
	}
	nothing := func(why string) {
		if raw != "" || len(evs) != 0 {
			fail("not-enabled/"+kindName(it.Kind), "%s: nothing must be written", why)
		}
	}
	switch it.Kind {
	case 0:
		k := it.Key
		// two listed known findings of the input pipeline (not of the
		// widget, whose encoding is xterm's): ESC followed by a C0 control is
		// not read as Alt+<control>, ESC followed by a non-ASCII character
		// is dropped
		if k.Modifiers&vaxis.ModAlt != 0 {
			rest := k.Modifiers &^ vaxis.ModAlt
			switch {
			case w.known["esc-c0-not-alt"] && (k.Modifiers&vaxis.ModCtrl != 0 && k.Keycode >= 'a' && k.Keycode <= 'z' || k.Keycode == vaxis.KeyEnter || k.Keycode == vaxis.KeyTab) && len(raw) == 2 && raw[0] == 0x1b:
				if len(evs) == 1 {
					if ev, ok := evs[0].(vaxis.Key); ok && ev.Matches(k.Keycode, rest) {
						w.res.Known("esc-c0-not-alt", 1)
						w.resync13()
						return
					}
				}
			case w.known["esc-nonascii-dropped"] && k.Keycode >= 0x80 && k.Keycode < 0x10FFFF && raw == "\x1b"+string(k.Keycode):
				if len(evs) == 0 {
					w.res.Known("esc-nonascii-dropped", 1)
					w.resync13()
					return
				}
			}
		}
		if it.Keypad {
			if raw == "" && len(evs) == 0 && w.known["keypad-keys-not-forwarded"] {
				w.res.Known("keypad-keys-not-forwarded", 1)
				return
			}
			if len(evs) != 1 {
				fail("keypad", "expected one key event for the keypad key (digit in numeric mode, SS3 form in application mode)")
				return
			}
			if m.DECKPAM && raw == it.Key.Text && w.known["keypad-keys-not-forwarded"] {
				w.res.Known("keypad-keys-not-forwarded", 1)
				return
			}
			if m.DECKPAM != strings.HasPrefix(raw, "\x1bO") {
				fail("keypad-mode", "keypad mode (DECKPAM) is %v: the SS3 form is expected exactly in application mode", m.DECKPAM)
				return
			}
		}
		if len(evs) != 1 {
			fail("key/"+keyClass(k), "expected exactly one key event matching the chord")
			return
		}
		ev, ok := evs[0].(vaxis.Key)
		if !ok {
			fail("key/"+keyClass(k), "expected a key event")
			return
		}
		if ev.EventType == vaxis.EventRelease {
			fail("key/"+keyClass(k), "the key press arrived as a release")
			return
		}
		if it.Locked {
			k.Modifiers = it.Want
			if ev.Modifiers&(vaxis.ModShift|vaxis.ModAlt|vaxis.ModCtrl) != 0 {
				fail("key/lock-modifiers", "the key was pressed with lock modifiers only; it arrived with modifiers %#x", ev.Modifiers)
				return
			}
		}
		if !ev.Matches(k.Keycode, k.Modifiers) && !(it.AltCode != 0 && ev.Matches(it.AltCode, it.AltMods)) {
			fail("key/"+keyClass(k), "the event does not match the original chord (Matches(%q, %s) is false)", k.Keycode, strings.TrimSuffix(modString(k.Modifiers), "+"))
			return
		}
		// cursor keys: the child's cursor-key mode selects SS3 or CSI
		if k.Modifiers == 0 {
			switch k.Keycode {
			case vaxis.KeyUp, vaxis.KeyDown, vaxis.KeyLeft, vaxis.KeyRight, vaxis.KeyHome, vaxis.KeyEnd:
				// (with lock modifiers only this is still the unmodified key)
				want := "\x1b["
				if m.DECCKM {
					want = "\x1bO"
				}
				if !strings.HasPrefix(raw, want) || len(raw) != 3 {
					fail("cursor-key-mode", "cursor key mode (DECCKM) is %v: expected the %q form", m.DECCKM, want)
				}
			}
		}
	case 1, 2:
		if !m.Paste {
			nothing("the child has not enabled bracketed paste")
			return
		}
		okEv := false
		if len(evs) == 1 {
			switch evs[0].(type) {
			case vaxis.PasteStartEvent:
				okEv = it.Kind == 1
			case vaxis.PasteEndEvent:
				okEv = it.Kind == 2
			}
		}
		if !okEv {
			fail("paste", "expected exactly the paste boundary event")
		}
	case 3:
		ms := it.Mouse
		wheel := ms.Button == vaxis.MouseWheelUp || ms.Button == vaxis.MouseWheelDown
		any := m.M1000 || m.M1002 || m.M1003
		var want bool
		switch {
		case ms.EventType == vaxis.EventMotion && ms.Button == vaxis.MouseNoButton:
			want = m.M1003
		case ms.EventType == vaxis.EventMotion:
			want = m.M1002 || m.M1003
		default:
			want = any
		}
		if !want {
			if wheel && !any && m.AltScroll && !m.Primary {
				// alternate-scroll mode (1007) turns the wheel into arrow
				// keys on the alternate screen: a mode of its own
				return
			}
			nothing("the child has not enabled this kind of mouse report")
			return
		}
		if !m.SGR {
			// legacy encoding: only that something is reported
			if raw == "" {
				fail("mouse-legacy", "the child enabled mouse reports (legacy encoding): nothing was written")
			}
			return
		}
		if len(evs) != 1 {
			fail("mouse-sgr", "expected exactly one mouse event")
			return
		}
		ev, ok := evs[0].(vaxis.Mouse)
		if !ok || ev.Button != ms.Button || ev.Col != ms.Col || ev.Row != ms.Row || ev.EventType != ms.EventType {
			fail("mouse-sgr", "expected the same button, position and type")
		}
	}
}

// resync13 brings the inner parser back to its ground state after an item
// that is known to leave it elsewhere.
func (w *nestedWorld) resync13() {
	for i := 0; i < 2; i++ {
		w.vt.Update(vaxis.Key{Keycode: 'x', Text: "x", EventType: vaxis.EventPress})
		simrt.Sleep(time.Second)
		w.settle()
	}
	w.drainInner()
}

func kindName(k int) string { return []string{"key", "paste", "paste", "mouse"}[k] }

func keyClass(k vaxis.Key) string {
	switch {
	case k.Keycode > 0x10FFFF:
		return "special"
	case k.Keycode < 0x20 || k.Keycode == 0x7f || k.Keycode == ' ':
		return "named"
	case k.Modifiers&vaxis.ModCtrl != 0:
		return "ctrl"
	case k.Modifiers&vaxis.ModAlt != 0:
		return "alt"
	case k.Modifiers&vaxis.ModShift != 0:
		return "shift"
	}
	return "plain"
}

func eventsString(evs []vaxis.Event) string {
	if len(evs) == 0 {
		return "nothing"
	}
	var s []string
	for _, e := range evs {
		switch v := e.(type) {
		case vaxis.Key:
			s = append(s, fmt.Sprintf("Key{%s code=%#x shifted=%#x text=%q mods=%#x type=%d}", v.String(), v.Keycode, v.ShiftedCode, v.Text, v.Modifiers, v.EventType))
		default:
			s = append(s, fmt.Sprintf("%T%+v", e, e))
		}
	}
	return strings.Join(s, ", ")
}
