package worlds

import (
	"fmt"
	"image"
	"image/color"
	"sort"
	"strings"
	"time"

	"git.sr.ht/~rockorager/vaxis"
	"git.sr.ht/~rockorager/vaxis/simrt"

	"simharness/simterm"
)

// imageWorld (C20, placement lifecycle only): a real Vaxis session on a
// terminal that advertises a graphics protocol and reports its pixel size.
// The application creates a few small images (their encoders are goroutines
// started by Resize), then draws frame histories that add, keep, move, resize
// and drop placements, with Render and Refresh. The scheduler decides when
// each encoder finishes relative to Draw and Render. The reference terminal
// logs every graphics command it receives.

type imgAct struct {
	Present  bool
	Col, Row int
	Resize   bool
	W, H     int // box (cells) of a Resize
}

type imgFrame struct {
	Acts    []imgAct
	Refresh bool
	// the Resize calls of this frame are made between Draw and Render (race mode only)
	LateResize bool
}

type imageWorld struct {
	s      *simrt.Sched
	res    *RunResult
	rows   int
	cols   int
	kitty  bool
	settle bool // the application waits for the Redraw event of every Resize before drawing
	nimg   int
	px     [][2]int
	frames []imgFrame

	env     *sessionEnv
	vx      *vaxis.Vaxis
	imgs    []vaxis.Image
	done    bool
	last    map[string]bool // placements of the previous frame: "id,col,row,w,h"
	needTx  map[int]bool    // image encoded since its last upload
	logPos  int
	checked int
	qsize   int
	noiseOn bool
}

func init() {
	Register("C20", func() World { return &imageWorld{} })
}

func (w *imageWorld) SimName() string { return "imageWorld" }

func (w *imageWorld) Describe() any {
	var fr []string
	for i, f := range w.frames {
		var a []string
		for k, act := range f.Acts {
			s := fmt.Sprintf("img%d:", k+1)
			if act.Resize {
				s += fmt.Sprintf("resize(%dx%d)", act.W, act.H)
			}
			if act.Present {
				s += fmt.Sprintf("draw@(%d,%d)", act.Col, act.Row)
			} else {
				s += "absent"
			}
			a = append(a, s)
		}
		end := "Render"
		if f.Refresh {
			end = "Refresh"
		}
		if f.LateResize {
			end += "(resize between Draw and Render)"
		}
		fr = append(fr, fmt.Sprintf("frame %d: %s -> %s", i, strings.Join(a, " "), end))
	}
	proto := "sixel"
	if w.kitty {
		proto = "kitty"
	}
	return map[string]any{"protocol": proto, "size": fmt.Sprintf("%dx%d", w.rows, w.cols), "images_px": w.px, "waits_for_encoders": w.settle, "event_queue": w.qsize, "frames": fr}
}

func (w *imageWorld) Build(t *simrt.Tape, spec RunSpec) {
	w.rows, w.cols = 6+t.Draw(7), 12+t.Draw(19)
	w.kitty = t.Draw(2) == 0
	w.settle = t.Draw(3) != 0
	w.nimg = 1 + t.Draw(3)
	// queue pressure: a tiny event queue that other tasks keep full while
	// the application is busy; the encoders' Redraw must still arrive
	if w.settle && t.Draw(3) == 0 {
		w.qsize = 1 + t.Draw(4)
	}
	for i := 0; i < w.nimg; i++ {
		w.px = append(w.px, [2]int{4 + t.Draw(40), 4 + t.Draw(60)})
	}
	nf := 2 + t.Draw(8)
	pos := make([][2]int, w.nimg)
	for i := range pos {
		pos[i] = [2]int{t.Draw(w.cols - 6), t.Draw(w.rows - 4)}
	}
	for f := 0; f < nf; f++ {
		fr := imgFrame{Refresh: t.Draw(8) == 0}
		for i := 0; i < w.nimg; i++ {
			var a imgAct
			switch k := t.Draw(10); {
			case k < 5: // keep
				a.Present = true
			case k < 7: // move
				a.Present = true
				pos[i] = [2]int{t.Draw(w.cols - 6), t.Draw(w.rows - 4)}
			case k < 8: // resize
				a.Present = true
				a.Resize = true
				a.W, a.H = 1+t.Draw(5), 1+t.Draw(4)
			default: // drop
			}
			if f == 0 {
				// every image is sized once before it is first drawn
				a.Resize = true
				a.W, a.H = 1+t.Draw(5), 1+t.Draw(4)
			}
			a.Col, a.Row = pos[i][0], pos[i][1]
			fr.Acts = append(fr.Acts, a)
		}
		if !w.settle && f > 0 && t.Draw(3) == 0 {
			fr.LateResize = true
		}
		w.frames = append(w.frames, fr)
	}
}

func (w *imageWorld) Start(s *simrt.Sched, res *RunResult) {
	w.s, w.res = s, res
	s.MaxSteps = 400000
	s.RaceOn = true
	s.Preempt = []int{0, 0, 100, 30}[s.Tape.Draw(4)]
	caps := simterm.Caps{RGB: true, Sync: s.Tape.Draw(2) == 0, Base: simterm.PWcwidth, UnicodeCore: true, SizeChars: true, SizePixels: true}
	// how the pixel size is learnt: in-band size reports (mode 2048) or
	// XTWINOPS queries (opted into through the environment); the ioctl path
	// needs a real tty
	if s.Tape.Draw(2) == 0 {
		caps.InBandResize = true
	} else {
		s.Env["VAXIS_FORCE_XTWINOPS"] = "1"
	}
	if w.kitty {
		caps.KittyGraphics = true
	} else {
		caps.Sixel = true
	}
	w.env = newSessionEnv(s, res, w.rows, w.cols, caps)
	w.env.replyDelay = promptReplies(s)
	w.env.chunkMode = s.Tape.Draw(4)
	w.env.start()
	s.Go("app", w.app)
}

func (w *imageWorld) mkImage(i int) image.Image {
	img := image.NewRGBA(image.Rect(0, 0, w.px[i][0], w.px[i][1]))
	for y := 0; y < w.px[i][1]; y++ {
		for x := 0; x < w.px[i][0]; x++ {
			img.Set(x, y, color.RGBA{uint8(40 * (i + 1)), uint8(x * 5), uint8(y * 3), 255})
		}
	}
	return img
}

// waitRedraws polls until n Redraw events arrived (one per finished encoder).
func (w *imageWorld) waitRedraws(n int) bool {
	deadline := w.s.Now() + 60*time.Second
	for n > 0 {
		var ev vaxis.Event
		var ok bool
		tm := time.NewTimer(deadline - w.s.Now())
		k := simrt.Select("app.poll-redraw", false, simrt.CaseRecv(w.vx.Events(), &ev, &ok), simrt.CaseRecv(tm.C, nil, nil))
		tm.Stop()
		if k != 0 || !ok {
			return false
		}
		if _, isRedraw := ev.(vaxis.Redraw); isRedraw {
			n--
		}
	}
	return true
}

type noiseEvent struct{}

func (w *imageWorld) drain() {
	for {
		var ev vaxis.Event
		var ok bool
		if simrt.Select("app.drain", true, simrt.CaseRecv(w.vx.Events(), &ev, &ok)) < 0 || !ok {
			return
		}
	}
}

func (w *imageWorld) app() {
	defer func() {
		w.done = true
		w.env.shutdown()
		w.s.Finish()
	}()
	vx, err := newVaxis(w.env, vaxis.Options{EventQueueSize: w.qsize})
	if err != nil {
		w.res.Violate("new-failed", "vaxis.New", "%v", err)
		return
	}
	w.vx = vx
	w.env.settle()
	w.drain()
	for i := 0; i < w.nimg; i++ {
		img, err := vx.NewImage(w.mkImage(i))
		if err != nil {
			w.res.Violate("new-image", "vaxis.NewImage", "%v", err)
			return
		}
		switch img.(type) {
		case *vaxis.KittyImage:
			if !w.kitty {
				w.res.Violate("protocol", "vaxis.NewImage", "the terminal advertises sixel only; NewImage chose the kitty protocol")
				return
			}
		case *vaxis.Sixel:
			if w.kitty {
				w.res.Violate("protocol", "vaxis.NewImage", "the terminal advertises kitty graphics; NewImage chose sixel")
				return
			}
		default:
			w.res.Violate("protocol", "vaxis.NewImage", "the terminal advertises graphics and reports its pixel size; NewImage returned %T", img)
			return
		}
		w.imgs = append(w.imgs, img)
	}
	w.last = map[string]bool{}
	w.needTx = map[int]bool{}
	w.env.quiesce()
	w.logPos = len(w.env.term.Graphics)
	for fi, fr := range w.frames {
		if len(w.res.Violations) > 0 {
			break
		}
		resizes := 0
		doResizes := func() {
			for i, a := range fr.Acts {
				if a.Resize {
					w.imgs[i].Resize(a.W, a.H)
					w.needTx[i+1] = true
					resizes++
					w.res.Fault("image-resize")
				}
			}
		}
		if !fr.LateResize {
			doResizes()
		}
		if w.settle && w.qsize > 0 && resizes > 0 {
			// the application is busy for a moment while other tasks post
			// (droppable) events: the queue is full when the encoders finish
			w.noiseOn = true
			w.s.Go("noise", func() {
				for i := 0; i < 40 && w.noiseOn; i++ {
					w.vx.PostEvent(noiseEvent{})
					simrt.Sleep(500 * time.Microsecond)
				}
			})
			simrt.Sleep(time.Duration(Grid[w.s.Tape.Draw(8)]) * time.Microsecond)
			w.res.Fault("queue-full-while-encoding")
		}
		if w.settle {
			ok := w.waitRedraws(resizes)
			w.noiseOn = false
			if !ok {
				w.res.Violate("encoder-stuck", "Image.Resize", "frame %d: %d Resize calls were made; their Redraw events did not all arrive within 60 simulated seconds: %v", fi, resizes, w.s.Picture())
				return
			}
		} else if w.s.Tape.Draw(2) == 0 {
			simrt.Sleep(time.Duration(Grid[w.s.Tape.Draw(8)]) * time.Microsecond)
		}
		win := vx.Window()
		win.Clear()
		win.Fill(vaxis.Cell{Character: vaxis.Character{Grapheme: "x", Width: 1}})
		next := map[string]bool{}
		type box struct{ col, row, w, h int }
		var boxes []box
		for i, a := range fr.Acts {
			if !a.Present {
				continue
			}
			cw, ch := w.imgs[i].CellSize()
			iw := win.New(a.Col, a.Row, -1, -1)
			w.imgs[i].Draw(iw)
			if w.settle {
				ww, wh := iw.Size()
				if w.kitty || (cw <= ww && ch <= wh && cw > 0) {
					next[fmt.Sprintf("%d,%d,%d,%d,%d", i+1, a.Col, a.Row, cw, ch)] = true
					boxes = append(boxes, box{a.Col, a.Row, cw, ch})
				}
			}
			w.res.Fault("image-draw")
		}
		if fr.LateResize {
			doResizes()
			w.res.Fault("resize-between-draw-and-render")
		}
		if fr.Refresh {
			vx.Refresh()
			w.res.Fault("refresh")
		} else {
			vx.Render()
		}
		w.env.quiesce()
		evs := w.env.term.Graphics[w.logPos:]
		w.logPos = len(w.env.term.Graphics)
		if !w.settle {
			// encoders race with Draw and Render: which placements exist is
			// not determined; the race oracle and the invariants below apply
			w.checkInvariants(fi, evs)
			continue
		}
		w.checkFrame(fi, fr, next, evs)
		// text cells outside every image keep what the application drew
		t := w.env.term
		for r := 0; r < t.Rows && len(w.res.Violations) == 0; r++ {
			for c := 0; c < t.Cols; c++ {
				in := false
				for _, b := range boxes {
					if c >= b.col && c < b.col+b.w && r >= b.row && r < b.row+b.h {
						in = true
					}
				}
				if in {
					continue
				}
				if cell := t.Cell(r, c); cell.G != "x" {
					w.res.Violate("cells", "image.Draw", "frame %d: cell (row %d, col %d) lies outside every image's target area and must show the application's %q; the terminal shows %q\ncase: %s", fi, r, c, "x", cell.G, toJSON(w.Describe()))
					break
				}
			}
		}
		w.last = next
		w.checked++
	}
	// let running encoders finish before shutting down
	simrt.Sleep(200 * time.Millisecond)
	w.drain()
	vx.Close()
}

func (w *imageWorld) pid(col, row int) int { return col<<16 | row }

// checkFrame: exact lifecycle for a frame whose encoders had all finished.
func (w *imageWorld) checkFrame(fi int, fr imgFrame, next map[string]bool, evs []simterm.GraphicsEvent) {
	type want struct {
		kind     string
		id       int
		col, row int
	}
	parse := func(k string) (id, col, row, cw, ch int) {
		fmt.Sscanf(k, "%d,%d,%d,%d,%d", &id, &col, &row, &cw, &ch)
		return
	}
	var wantDel, wantPlace []want
	for k := range w.last {
		if fr.Refresh || !next[k] {
			id, col, row, _, _ := parse(k)
			wantDel = append(wantDel, want{"kitty-delete", id, col, row})
		}
	}
	for k := range next {
		if fr.Refresh || !w.last[k] {
			id, col, row, _, _ := parse(k)
			wantPlace = append(wantPlace, want{"place", id, col, row})
		}
	}
	fail := func(aspect, format string, args ...any) {
		var got []string
		for _, e := range evs {
			got = append(got, fmt.Sprintf("%s id=%d at(row %d,col %d) %s", e.Kind, e.ID, e.Row, e.Col, e.Raw))
		}
		w.res.Violate("placement", aspect, "frame %d: "+format+"\nprevious frame's placements (id,col,row,w,h): %v\nthis frame's: %v\ngraphics commands the terminal received for this frame: %v\ncase: %s",
			append(append([]any{fi}, args...), keys(w.last), keys(next), got, toJSON(w.Describe()))...)
	}
	if !w.kitty {
		// sixel: one image transmission per new or changed placement, at its position
		var got []want
		for _, e := range evs {
			if e.Kind == "sixel" {
				got = append(got, want{"place", 0, e.Col, e.Row})
			} else {
				fail("foreign-protocol", "a %s command was sent to a sixel-only terminal", e.Kind)
				return
			}
		}
		if len(got) != len(wantPlace) {
			if len(got) > len(wantPlace) {
				fail("retransmitted", "%d sixel images were transmitted, %d placements are new or changed", len(got), len(wantPlace))
			} else {
				fail("not-transmitted", "%d sixel images were transmitted, %d placements are new or changed", len(got), len(wantPlace))
			}
			return
		}
		used := make([]bool, len(got))
	outer:
		for _, wp := range wantPlace {
			for i, g := range got {
				if !used[i] && g.col == wp.col && g.row == wp.row {
					used[i] = true
					continue outer
				}
			}
			fail("position", "no sixel image was transmitted at row %d col %d (image %d)", wp.row, wp.col, wp.id)
			return
		}
		return
	}
	// kitty
	tx := map[int]int{}
	var gotDel, gotPlace []want
	for _, e := range evs {
		switch e.Kind {
		case "kitty-transmit":
			tx[e.ID]++
		case "kitty-delete":
			var p int
			for _, kv := range strings.Split(e.Raw, ",") {
				fmt.Sscanf(kv, "p=%d", &p)
			}
			gotDel = append(gotDel, want{"kitty-delete", e.ID, p >> 16, p & 0xffff})
		case "kitty-place":
			gotPlace = append(gotPlace, want{"place", e.ID, e.Col, e.Row})
		default:
			fail("foreign-protocol", "a %s command was sent to a kitty-graphics terminal", e.Kind)
			return
		}
	}
	match := func(a, b []want) (missing, extra *want) {
		used := make([]bool, len(b))
	outer:
		for i := range a {
			for j := range b {
				if !used[j] && a[i].id == b[j].id && a[i].col == b[j].col && a[i].row == b[j].row {
					used[j] = true
					continue outer
				}
			}
			return &a[i], nil
		}
		for j := range b {
			if !used[j] {
				return nil, &b[j]
			}
		}
		return nil, nil
	}
	if miss, extra := match(wantDel, gotDel); miss != nil {
		fail("not-deleted", "the placement of image %d at row %d col %d was dropped (or a full refresh was requested) but not deleted", miss.id, miss.row, miss.col)
		return
	} else if extra != nil {
		fail("deleted-unexpectedly", "the placement of image %d at row %d col %d was deleted although it is unchanged in this frame", extra.id, extra.row, extra.col)
		return
	}
	if miss, extra := match(wantPlace, gotPlace); miss != nil {
		fail("not-placed", "image %d is new or changed at row %d col %d but was not placed there", miss.id, miss.row, miss.col)
		return
	} else if extra != nil {
		fail("retransmitted", "image %d was placed at row %d col %d although this placement is unchanged since the previous frame", extra.id, extra.row, extra.col)
		return
	}
	for _, wp := range wantPlace {
		if w.needTx[wp.id] && tx[wp.id] == 0 {
			fail("not-transmitted", "image %d was (re)encoded and is placed, but its data was not transmitted", wp.id)
			return
		}
		delete(w.needTx, wp.id)
	}
	for id, n := range tx {
		placed := false
		for _, wp := range wantPlace {
			placed = placed || wp.id == id
		}
		if !placed {
			fail("retransmitted", "the data of image %d was transmitted (%d chunks) although no placement of it is new or changed", id, n)
			return
		}
	}
}

// checkInvariants: what holds whatever the encoders' timing.
func (w *imageWorld) checkInvariants(fi int, evs []simterm.GraphicsEvent) {
	for _, e := range evs {
		if (e.Kind == "sixel") == w.kitty {
			w.res.Violate("placement", "foreign-protocol", "frame %d: a %s command was sent although the terminal advertises only the other protocol", fi, e.Kind)
			return
		}
	}
}

func keys(m map[string]bool) []string {
	var out []string
	for k := range m {
		out = append(out, k)
	}
	sort.Strings(out)
	return out
}

func (w *imageWorld) Finish(s *simrt.Sched, res *RunResult) {
	taskPanics(s, res, "panic")
	res.Nontrivial = len(w.frames) > 2
	res.EndState = fmt.Sprintf("%s checked=%d races=%d", s.End, w.checked, len(s.Races))
	res.Probes = map[string]int{"frames-checked": w.checked, "accesses-checked": s.Accesses}
	if w.settle {
		res.Probes["settled-run"]++
	} else {
		res.Probes["racing-run"]++
	}
	for _, r := range s.Races {
		res.Violate("data-race", raceKey(r), "unsynchronised conflicting accesses (no happens-before edge through any lock, channel, atomic, goroutine start or timer): %s\ncase: %s", r, toJSON(w.Describe()))
	}
	if s.End != simrt.EndFinished {
		res.Violate("stuck", "session", "the session did not complete (%s): %v\ncase: %s", s.End, s.Picture(), toJSON(w.Describe()))
	}
	if live := s.LiveLibTasks(); len(live) > 0 && s.End == simrt.EndFinished {
		res.Violate("goroutine-leak", leakSite(live), "tasks started by the library are still alive after Close: %v", live)
	}
}
