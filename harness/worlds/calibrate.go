package worlds

import (
	"sync"
	"testing"
	"testing/synctest"
	"time"

	"git.sr.ht/~rockorager/vaxis/ansi"
	"git.sr.ht/~rockorager/vaxis/simrt"
)

var calOnce sync.Once

// Calibrate measures, on the code under test, how long after a lone ESC the
// parser reports the Escape key. Oracles scale their "silence" by it instead of
// assuming the library's constant.
func Calibrate(t *testing.T) {
	calOnce.Do(func() {
		defer func() { recover() }()
		var got time.Duration = -1
		synctest.Test(t, func(t *testing.T) {
			s := simrt.NewSched(simrt.ReplayTape(nil))
			rd := newSimReader(s)
			s.Go("main", func() {
				p := ansi.NewParser(rd)
				s.Go("consumer", func() {
					for {
						seq, ok := simrt.Recv2(p.Next(), "cal.recv")
						if !ok {
							return
						}
						if c, ok := seq.(ansi.C0); ok && rune(c) == 0x1b && got < 0 {
							got = s.Now()
						}
					}
				})
				rd.push([]byte{0x1b}, 1)
				simrt.Sleep(20 * time.Second)
				s.Finish()
			})
			s.Run()
		})
		if got > 0 {
			EscapeDelay = got
		}
	})
}
