package worlds

import (
	"fmt"
	"sort"
	"strings"
	"time"

	"git.sr.ht/~rockorager/vaxis"
	"git.sr.ht/~rockorager/vaxis/simrt"

	"simharness/simterm"
)

func init() {
	Register("C07", func() World { return &frameWorld{prop: "C07"} })
}

// slowReplies delays each kind of reply by a grid latency up to 5 s, or never
// sends it.
func slowReplies(s *simrt.Sched, res *RunResult) func(string) (time.Duration, bool) {
	per := map[string]time.Duration{}
	drop := map[string]bool{}
	da1 := 0
	return func(kind string) (time.Duration, bool) {
		if kind == "DA1" {
			// only the start-up query may go unanswered: Suspend/Close
			// rely on the answer by design
			da1++
			if da1 > 1 {
				return 0, false
			}
		}
		d, ok := per[kind]
		if !ok {
			switch s.Tape.Draw(6) {
			case 0:
				drop[kind] = true
			case 1, 2:
				d = 0
			default:
				d = time.Duration(drawGrid(s.Tape, 5_000_000)) * time.Microsecond
			}
			per[kind] = d
			if d > 5*time.Millisecond {
				res.Fault("reply-late")
			}
		}
		return d, drop[kind]
	}
}

func (w *frameWorld) rgbAdvertised() bool {
	return w.caps.RGB || w.colorterm == "truecolor" || w.colorterm == "24bit"
}

// afterNew07 compares what Vaxis reports with what the replies established.
func (w *frameWorld) afterNew07() {
	vx := w.vx
	c := w.caps
	got := vx.SimCaps()
	want := map[string]bool{
		"sync": c.Sync, "unicode-core": c.UnicodeCore, "rgb": w.rgbAdvertised(), "kitty-graphics": c.KittyGraphics,
		"kitty-keyboard": c.KittyKbd, "styled-ul": c.StyledUnderline(), "sixel": c.Sixel, "color-scheme": c.ColorScheme,
		"size-chars": c.SizeChars, "size-pixels": c.SizePixels, "osc4": c.OSC4, "osc10": c.OSC10, "osc11": c.OSC11,
		"osc176": c.AppID, "in-band-resize": c.InBandResize, "explicit-width": c.ExplicitWidth,
		"nozwj": strings.HasPrefix(c.Name, "kitty"),
	}
	var keys []string
	for k := range want {
		keys = append(keys, k)
	}
	sort.Strings(keys)
	for _, k := range keys {
		switch {
		case got[k] && !want[k]:
			w.res.Violate("capability-invented", "vaxis.New", "Vaxis reports %q although no reply established it; terminal: %s COLORTERM=%q slow=%v", k, capsString(c), w.colorterm, w.slow)
		case !got[k] && want[k] && !w.slow:
			w.res.Violate("capability-missed", "vaxis.New", "the terminal's prompt replies established %q but Vaxis does not report it; terminal: %s", k, capsString(c))
		}
	}
	acc := map[string][2]bool{
		"CanRGB":                   {vx.CanRGB(), want["rgb"]},
		"CanKittyGraphics":         {vx.CanKittyGraphics(), want["kitty-graphics"]},
		"CanSixel":                 {vx.CanSixel(), want["sixel"]},
		"CanReportColor":           {vx.CanReportColor(), want["osc4"]},
		"CanReportForegroundColor": {vx.CanReportForegroundColor(), want["osc10"]},
		"CanReportBackgroundColor": {vx.CanReportBackgroundColor(), want["osc11"]},
		"CanDisplayGraphics":       {vx.CanDisplayGraphics(), want["sixel"] || want["kitty-graphics"]},
		"CanSetAppID":              {vx.CanSetAppID(), want["osc176"]},
		"CanUnicodeCore":           {vx.CanUnicodeCore(), want["unicode-core"]},
		"CanExplicitWidth":         {vx.CanExplicitWidth(), want["explicit-width"]},
	}
	keys = keys[:0]
	for k := range acc {
		keys = append(keys, k)
	}
	sort.Strings(keys)
	for _, k := range keys {
		v := acc[k]
		if v[0] && !v[1] {
			w.res.Violate("accessor-invented", "vaxis."+k, "%s() is true although no reply established it; terminal: %s slow=%v", k, capsString(c), w.slow)
		} else if !v[0] && v[1] && !w.slow {
			w.res.Violate("accessor-missed", "vaxis."+k, "%s() is false although the terminal's prompt replies established it; terminal: %s", k, capsString(c))
		}
	}
	if !w.slow {
		if id := vx.TerminalID(); id != c.Name {
			w.res.Violate("terminal-id", "vaxis.TerminalID", "TerminalID() = %q, the terminal identified itself as %q", id, c.Name)
		}
		// width method: what Vaxis measures must be what this terminal will do
		pers := personalityFor(c)
		for _, g := range append(append([]string{}, widePool...), trickyPool...) {
			if g == "" {
				continue
			}
			if got, want := vx.RenderedWidth(g), simterm.Measure(pers, g); got != want {
				w.res.Violate("width-method", "vaxis.RenderedWidth", "RenderedWidth(%q) = %d, the terminal (%s) advances %d columns", g, got, capsString(c), want)
				break
			}
		}
	}
}

func (w *frameWorld) beforeClose07() {}

var featureCap = map[string]func(w *frameWorld) bool{
	"rgb":                 func(w *frameWorld) bool { return w.rgbAdvertised() },
	"styled-underline":    func(w *frameWorld) bool { return w.caps.StyledUnderline() },
	"synchronized-output": func(w *frameWorld) bool { return w.caps.Sync },
	"kitty-keyboard":      func(w *frameWorld) bool { return w.caps.KittyKbd },
	"unicode-core":        func(w *frameWorld) bool { return w.caps.UnicodeCore },
	"explicit-width":      func(w *frameWorld) bool { return w.caps.ExplicitWidth },
	"sixel-scrolling":     func(w *frameWorld) bool { return w.caps.Sixel },
	"sixel":               func(w *frameWorld) bool { return w.caps.Sixel },
	"color-scheme":        func(w *frameWorld) bool { return w.caps.ColorScheme },
	"in-band-resize":      func(w *frameWorld) bool { return w.caps.InBandResize },
	"app-id":              func(w *frameWorld) bool { return w.caps.AppID },
	"kitty-graphics":      func(w *frameWorld) bool { return w.caps.KittyGraphics },
}

// finish07: every use of a gated feature outside the start-up query batch must
// be covered by an advertisement.
func (w *frameWorld) finish07(res *RunResult) {
	for _, u := range w.env.term.Uses {
		if u.Probe {
			continue
		}
		ok := featureCap[u.Feature]
		if ok == nil || ok(w) {
			continue
		}
		res.Violate("gated-use", "feature:"+u.Feature, "Vaxis wrote %q (feature %s) to a terminal that never advertised it; terminal: %s COLORTERM=%q slow=%v", u.Seq, u.Feature, capsString(w.caps), w.colorterm, w.slow)
	}
	if len(w.env.term.Unknown) > 0 {
		res.Violate("outside-baseline", "vaxis", "Vaxis wrote sequences outside the baseline xterm vocabulary and outside every gated feature: %v", w.env.term.Unknown[:min(4, len(w.env.term.Unknown))])
	}
}

// colour sweep ---------------------------------------------------------------

// sweepFrames builds one frame whose cells carry consecutive direct colours
// starting at base (as foreground, background or underline colour).
func sweepFrame(rows, cols int, base uint32, which int) frame {
	var fr frame
	c := base
	for r := 0; r < rows; r++ {
		for col := 0; col < cols; col++ {
			col24 := vaxis.RGBColor(uint8(c>>16), uint8(c>>8), uint8(c))
			st := vaxis.Style{}
			switch which {
			case 0:
				st.Foreground = col24
			case 1:
				st.Background = col24
			default:
				st.UnderlineColor = col24
				st.UnderlineStyle = vaxis.UnderlineSingle
			}
			fr.Ops = append(fr.Ops, frameOp{Kind: opSetCell, Col: col, Row: r, Cell: mcell{G: "x", W: 1, St: st}})
			c++
		}
	}
	return fr
}

var _ = fmt.Sprint
