package worlds

func init() {
	Register("C07", func() World { return &frameWorld{prop: "C07"} })
}

func (w *frameWorld) afterNew07()            {}
func (w *frameWorld) beforeClose07()         {}
func (w *frameWorld) finish07(res *RunResult) {}
