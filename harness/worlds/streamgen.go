package worlds

import (
	"fmt"

	"git.sr.ht/~rockorager/vaxis/simrt"
)

// classReps holds one or two representatives per byte class of the VT500
// automaton (plus UTF-8 classes). Class strings over this alphabet are walked
// systematically by run index.
var classReps = [][]byte{
	{0x00}, {0x07}, {0x0a}, {0x18}, {0x1a}, {0x1b}, {0x19}, {0x1c},
	{0x20}, {0x23}, {0x2f}, {0x30}, {0x35}, {0x39}, {0x3a}, {0x3b},
	{0x3c}, {0x3f}, {0x40}, {0x41}, {0x4f}, {0x50}, {0x58}, {0x5b},
	{0x5c}, {0x5d}, {0x5e}, {0x5f}, {0x60}, {0x6d}, {0x7e}, {0x7f},
	[]byte("é"), []byte("中"), []byte("😀"), []byte("́"), []byte("‍"),
}

// invalid UTF-8 material, used only in ground/string contexts by the grammar
// generator and anywhere by the raw generator
var invalidBytes = [][]byte{{0x80}, {0x9b}, {0xc3}, {0xff}, {0xe4, 0xb8}, {0xed, 0xa0, 0x80}}

var textPool = []string{
	"a", "b", "Z", "0", " ", "~", "é", "ß", "中", "文", "😀", "👍🏽", "é", "👨‍👩‍👧", "🇺🇸", "☺️", "́", "‍", "x̂̃", " ", "\u009b", "�",
}

// genClassString returns the idx-th string over classReps of the given length
// (mixed-radix enumeration), for systematic walks.
func genClassString(idx uint64, length int) []byte {
	var out []byte
	n := uint64(len(classReps))
	for i := 0; i < length; i++ {
		out = append(out, classReps[idx%n]...)
		idx /= n
	}
	return out
}

func drawParamValue(t *simrt.Tape) string {
	switch t.Draw(8) {
	case 0:
		return ""
	case 1:
		return "0"
	case 2:
		return "1"
	case 3:
		return fmt.Sprint(t.Draw(10))
	case 4:
		return fmt.Sprint(t.Draw(300))
	case 5:
		return fmt.Sprint(t.Draw(70000))
	case 6:
		return fmt.Sprint(1<<31 - t.Draw(3))
	default:
		return fmt.Sprintf("%03d", t.Draw(100)) // leading zeros
	}
}

func drawParams(t *simrt.Tape, sub bool) string {
	n := t.Draw(6)
	if t.Draw(12) == 0 {
		n = 14 + t.Draw(8)
	}
	s := ""
	for i := 0; i < n; i++ {
		if i > 0 {
			s += ";"
		}
		s += drawParamValue(t)
		if sub {
			k := t.Draw(4)
			if t.Draw(6) == 0 {
				k = 5 + t.Draw(10) // beyond any pooled capacity
			}
			for ; k > 1; k-- {
				s += ":" + drawParamValue(t)
			}
		}
	}
	if n > 0 && t.Draw(6) == 0 {
		s += ";"
	}
	return s
}

func drawInter(t *simrt.Tape, max int) string {
	s := ""
	for k := t.Draw(max + 1); k > 0; k-- {
		s += string(rune(0x20 + t.Draw(16)))
	}
	return s
}

func drawPayload(t *simrt.Tape) string {
	s := ""
	for k := t.Draw(12); k > 0; k-- {
		switch t.Draw(8) {
		case 0:
			s += textPool[t.Draw(len(textPool))]
		case 1:
			s += ";"
		case 2:
			s += string(rune(0x20 + t.Draw(0x5f)))
		case 3:
			s += string(invalidBytes[t.Draw(len(invalidBytes))])
		case 4:
			s += string(rune(t.Draw(0x18))) // C0 inside a string
		default:
			s += string(rune('a' + t.Draw(26)))
		}
	}
	return s
}

func drawTerminator(t *simrt.Tape, bel bool) string {
	if bel && t.Draw(3) == 0 {
		return "\x07"
	}
	return "\x1b\\"
}

// genSequence returns one grammar-built unit.
func genSequence(t *simrt.Tape) string {
	switch t.Draw(14) {
	case 0, 1: // text
		s := ""
		for k := 1 + t.Draw(4); k > 0; k-- {
			s += textPool[t.Draw(len(textPool))]
		}
		return s
	case 2: // C0
		c := []byte{0x00, 0x07, 0x08, 0x09, 0x0a, 0x0d, 0x7f, 0x1c, 0x1f, 0x19}
		return string(c[t.Draw(len(c))])
	case 3: // CSI
		priv := ""
		if t.Draw(3) == 0 {
			priv = string("<=>?"[t.Draw(4)])
		}
		return "\x1b[" + priv + drawParams(t, t.Draw(3) == 0) + drawInter(t, 2) + string(rune(0x40+t.Draw(0x3f)))
	case 4: // ESC
		fin := []byte("0789=>ABDEHMNZcno|}~6")
		return "\x1b" + drawInter(t, 2) + string(fin[t.Draw(len(fin))])
	case 5: // OSC
		return "\x1b]" + drawPayload(t) + drawTerminator(t, true)
	case 6: // DCS
		priv := ""
		if t.Draw(3) == 0 {
			priv = string("<=>?"[t.Draw(4)])
		}
		return "\x1bP" + priv + drawParams(t, false) + drawInter(t, 2) + string(rune(0x40+t.Draw(0x3f))) + drawPayload(t) + "\x1b\\"
	case 7: // APC
		return "\x1b_" + drawPayload(t) + "\x1b\\"
	case 8: // SS3
		return "\x1bO" + string(rune(0x20+t.Draw(0x5f)))
	case 9: // SOS / PM
		return "\x1b" + string("X^"[t.Draw(2)]) + drawPayload(t) + "\x1b\\"
	case 10: // cancelled / malformed prefix
		pre := []string{"\x1b[", "\x1b[1;2", "\x1b[?", "\x1b[1 ", "\x1b[1<", "\x1bP1;", "\x1bP1$q", "\x1b]0;ab", "\x1b_G", "\x1b#", "\x1bO", "\x1b[1:2:", "\x1bP:", "\x1bP1 2"}
		end := []string{"\x18", "\x1a", "\x1b", "", "\x18", "\x7f", "\n"}
		return pre[t.Draw(len(pre))] + end[t.Draw(len(end))]
	case 11: // Alt-prefixed key / lone ESC material
		k := []string{"\x1ba", "\x1b\x7f", "\x1b\\", "\x1b\x1b", "\x1b\n"}
		return k[t.Draw(len(k))]
	case 12: // invalid UTF-8 in ground
		return string(invalidBytes[t.Draw(len(invalidBytes))])
	default: // class string
		return string(genClassString(uint64(t.Draw(1<<30)), 1+t.Draw(5)))
	}
}

// genStream builds a byte stream of the requested kind (0 class walk handled by
// the caller, 1 grammar, 2 raw random).
func genStream(t *simrt.Tape, kind int) []byte {
	var out []byte
	switch kind {
	case 1:
		for k := 1 + t.Draw(12); k > 0; k-- {
			out = append(out, genSequence(t)...)
		}
	default:
		n := 1 + t.Draw(40)
		for i := 0; i < n; i++ {
			switch t.Draw(4) {
			case 0:
				out = append(out, byte(t.Draw(256)))
			case 1:
				out = append(out, classReps[t.Draw(len(classReps))]...)
			default:
				out = append(out, byte(0x18+t.Draw(0x68)))
			}
		}
	}
	return out
}

// chunkStream splits data into read chunks.
func chunkStream(t *simrt.Tape, data []byte) [][]byte {
	var out [][]byte
	mode := t.Draw(4) // 0 whole, 1 bytes, 2 random small, 3 random
	for len(data) > 0 {
		n := len(data)
		switch mode {
		case 1:
			n = 1
		case 2:
			n = 1 + t.Draw(3)
		case 3:
			n = 1 + t.Draw(len(data))
		}
		if n > len(data) {
			n = len(data)
		}
		out = append(out, data[:n])
		data = data[n:]
	}
	return out
}
