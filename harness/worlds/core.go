// Package worlds wires the instrumented library, the simulator runtime and the
// reference terminal into simulated worlds, one family per property.
package worlds

import (
	"crypto/sha256"
	"encoding/hex"
	"encoding/json"
	"fmt"
	"runtime/debug"
	"sort"
	"strings"
	"sync/atomic"
	"testing"
	"testing/synctest"
	"time"

	"git.sr.ht/~rockorager/vaxis/simrt"
)

// Violation is one oracle failure. Oracle+Site form its class: minimisation
// keeps a candidate only if the same class recurs, and known findings are
// keyed by it.
type Violation struct {
	Oracle string `json:"oracle"`
	Site   string `json:"site"`
	Detail string `json:"detail"`
}

func (v Violation) Class() string { return v.Oracle + "@" + v.Site }

// RunSpec identifies one simulated run.
type RunSpec struct {
	Prop   string            `json:"prop"`
	Tier   string            `json:"tier"`
	Seed   uint64            `json:"seed"`  // VERIF_SEED
	Index  int               `json:"index"` // run index within the batch
	Replay bool              `json:"replay,omitempty"`
	W      []uint32          `json:"w,omitempty"` // workload tape (replay)
	S      []uint32          `json:"s,omitempty"` // schedule tape (replay)
	Opts   map[string]string `json:"opts,omitempty"`
	Log    bool              `json:"-"`
}

// RunResult is what one run reports.
type RunResult struct {
	Prop         string         `json:"prop"`
	Index        int            `json:"index"`
	Violations   []Violation    `json:"violations,omitempty"`
	Diag         []string       `json:"diag,omitempty"` // out-of-scope diagnostics
	End          string         `json:"end"`
	Steps        int            `json:"steps"`
	SimMs        float64        `json:"sim_ms"`
	Trace        string         `json:"trace"` // hash of the full schedule trace
	CaseHash     string         `json:"case"`  // hash of the generated case
	Faults       map[string]int `json:"faults,omitempty"`
	Probes       map[string]int `json:"probes,omitempty"`
	Switches     int            `json:"switches"`
	Tasks        int            `json:"tasks"`
	Nontrivial   bool           `json:"nontrivial"`
	Inconclusive int            `json:"inconclusive,omitempty"`
	EndState     string         `json:"end_state,omitempty"`
	W            []uint32       `json:"w,omitempty"`
	S            []uint32       `json:"s,omitempty"`
	Desc         any            `json:"desc,omitempty"`
	Log          []string       `json:"log,omitempty"`
	HarnessError string         `json:"harness_error,omitempty"`
	KnownHits    map[string]int `json:"known_hits,omitempty"`
	Leaked       []string       `json:"leaked,omitempty"`
}

func (r *RunResult) Violate(oracle, site, format string, args ...any) {
	d := fmt.Sprintf(format, args...)
	if len(d) > 1500 {
		d = d[:1500] + "…"
	}
	for _, v := range r.Violations {
		if v.Oracle == oracle && v.Site == site {
			return
		}
	}
	r.Violations = append(r.Violations, Violation{Oracle: oracle, Site: site, Detail: d})
}

// Known records that a listed known finding was observed.
func (r *RunResult) Known(id string, n int) {
	if r.KnownHits == nil {
		r.KnownHits = map[string]int{}
	}
	r.KnownHits[id] += n
}

// knownSet is the set of known-finding ids the driver enabled (from
// /verif/known_findings.json), passed as opts known=id+id+...
func knownSet(spec RunSpec) map[string]bool {
	m := map[string]bool{}
	for _, k := range strings.Split(spec.Opts["known"], "+") {
		if k != "" {
			m[k] = true
		}
	}
	return m
}

func (r *RunResult) Fault(kind string) {
	if r.Faults == nil {
		r.Faults = map[string]int{}
	}
	r.Faults[kind]++
}

func (r *RunResult) FaultN(kind string, n int) {
	if n == 0 {
		return
	}
	if r.Faults == nil {
		r.Faults = map[string]int{}
	}
	r.Faults[kind] += n
}

func (r *RunResult) Probe(kind string) {
	if r.Probes == nil {
		r.Probes = map[string]int{}
	}
	r.Probes[kind]++
}

// World is one simulated system plus its workload and oracles.
type World interface {
	// Build generates the case from the workload tape.
	Build(w *simrt.Tape, spec RunSpec)
	// Start spawns the initial tasks (called on the bubble root, before Run).
	Start(s *simrt.Sched, res *RunResult)
	// Finish evaluates the end-of-run oracles.
	Finish(s *simrt.Sched, res *RunResult)
	// Describe returns a JSON-able description of the generated case.
	Describe() any
}

var registry = map[string]func() World{}

func Register(prop string, f func() World) { registry[prop] = f }

func Props() []string {
	var out []string
	for k := range registry {
		out = append(out, k)
	}
	sort.Strings(out)
	return out
}

func seedFor(spec RunSpec, stream uint64) uint64 {
	x := simrt.SplitMix(spec.Seed ^ 0x5851F42D4C957F2D)
	x = simrt.SplitMix(x ^ uint64(spec.Index)*0x9E3779B97F4A7C15)
	h := uint64(1469598103934665603)
	for i := 0; i < len(spec.Prop); i++ {
		h = (h ^ uint64(spec.Prop[i])) * 1099511628211
	}
	return simrt.SplitMix(x ^ h ^ stream*0xD1B54A32D192ED03)
}

func optInt(m map[string]string, k string, def int) int {
	if v, ok := m[k]; ok {
		var n int
		if _, err := fmt.Sscanf(v, "%d", &n); err == nil {
			return n
		}
	}
	return def
}

func hashU32(a []uint32) string {
	h := sha256.New()
	var b [4]byte
	for _, v := range a {
		b[0], b[1], b[2], b[3] = byte(v), byte(v>>8), byte(v>>16), byte(v>>24)
		h.Write(b[:])
	}
	return hex.EncodeToString(h.Sum(nil)[:8])
}

// CurrentRun is what the wall-clock watchdog reports when a run stops making
// progress (a CPU loop inside the code under test never reaches a hook).
type CurrentRun struct {
	Spec  RunSpec
	Start time.Time
	W, S  *simrt.Tape
	Desc  any
}

var Current atomic.Pointer[CurrentRun]

// Execute runs one simulated run inside its own bubble.
func Execute(t *testing.T, spec RunSpec) (res RunResult) {
	res.Prop, res.Index = spec.Prop, spec.Index
	mk := registry[spec.Prop]
	if mk == nil {
		res.HarnessError = "unknown property " + spec.Prop
		return
	}
	defer func() {
		if r := recover(); r != nil {
			msg := fmt.Sprint(r)
			if strings.Contains(msg, "deadlock: main bubble goroutine has exited") {
				// tasks blocked for ever in real channel operations; they
				// were already counted by Finish via Sched.Leaked
				return
			}
			res.HarnessError = msg + "\n" + string(debug.Stack())
		}
	}()
	// sweep=N: N consecutive indices share one generated case and differ only
	// in the swept coordinate (opts["sweepk"]), e.g. the end-of-input offset
	seedSpec := spec
	if n := optInt(spec.Opts, "sweep", 0); n > 0 {
		base := optInt(spec.Opts, "base", 0)
		o := map[string]string{}
		for k, v := range spec.Opts {
			o[k] = v
		}
		o["sweepk"] = fmt.Sprint((spec.Index - base) % n)
		spec.Opts = o
		seedSpec.Index = base + (spec.Index-base)/n
	}
	synctest.Test(t, func(t *testing.T) {
		var wt, st *simrt.Tape
		if spec.Replay {
			wt, st = simrt.ReplayTape(spec.W), simrt.ReplayTape(spec.S)
		} else {
			wt, st = simrt.NewTape(seedFor(seedSpec, 1)), simrt.NewTape(seedFor(spec, 2))
		}
		w := mk()
		w.Build(wt, spec)
		Current.Store(&CurrentRun{Spec: spec, Start: wallNow(), W: wt, S: st, Desc: w.Describe()})
		s := simrt.NewSched(st)
		s.Logging = spec.Log
		start := time.Now()
		w.Start(s, &res)
		s.Run()
		res.End = s.End
		res.Steps = s.Steps
		res.SimMs = float64(time.Since(start)) / float64(time.Millisecond)
		res.Switches = s.Switches
		res.Leaked = s.Leaked()
		w.Finish(s, &res)
		res.Trace = fmt.Sprintf("%016x", s.Hash())
		res.W, res.S = wt.Out, st.Out
		res.CaseHash = hashU32(wt.Out)
		for k, v := range s.Probes {
			if res.Probes == nil {
				res.Probes = map[string]int{}
			}
			res.Probes[k] += v
		}
		if s.MultiSel > 0 {
			res.Probes["select-multi-ready"] += s.MultiSel
		}
		res.Desc = w.Describe()
		if spec.Log {
			res.Log = s.Log
		}
	})
	return
}

// taskPanics turns recorded task panics into violations of oracle "panic",
// except the injected ones.
func taskPanics(s *simrt.Sched, res *RunResult, oracle string) {
	for _, t := range s.Panics() {
		if _, ok := t.PanicVal.(simrt.InjectedPanic); ok {
			continue
		}
		site := simrt.PanicSite(t.PanicText)
		first := t.PanicText
		if i := strings.IndexByte(first, '\n'); i > 0 {
			first = first[:i]
		}
		res.Violate(oracle, site, "task %d/%s panicked: %s\n%s", t.ID, t.Name, first, t.PanicText)
	}
}

func toJSON(v any) string {
	b, _ := json.Marshal(v)
	return string(b)
}

// Grid is the latency grid of DESIGN §4.2 (round values and common UI periods,
// each also ±1 ms), in microseconds.
var Grid = func() []int64 {
	base := []int64{0, 1, 2, 5, 8, 10, 16, 20, 50, 100, 200, 500, 1000, 2000, 3000, 5000, 10000}
	seen := map[int64]bool{}
	var out []int64
	for _, b := range base {
		for _, d := range []int64{-1, 0, 1} {
			v := (b + d) * 1000
			if v < 0 || seen[v] {
				continue
			}
			seen[v] = true
			out = append(out, v)
		}
	}
	sort.Slice(out, func(i, j int) bool { return out[i] < out[j] })
	return out
}()

func drawGrid(t *simrt.Tape, maxUs int64) int64 {
	n := 0
	for n < len(Grid) && Grid[n] <= maxUs {
		n++
	}
	return Grid[t.Draw(n)]
}

// wallNow is the real wall clock; inside a bubble time.Now is the fake clock,
// so the watchdog keeps its own reference outside.
var wallNow = func() time.Time { return time.Time{} }
