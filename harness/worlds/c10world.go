package worlds

import (
	"fmt"
	"sort"
	"strings"
	"time"

	"git.sr.ht/~rockorager/vaxis"
	"git.sr.ht/~rockorager/vaxis/simrt"
	"git.sr.ht/~rockorager/vaxis/widgets/spinner"
	"github.com/anishathalye/porcupine"

	"simharness/simterm"
)

// concWorld runs the C10 workload: a main task that polls, draws and renders,
// several poster tasks, query tasks, an optional spinner, user input with lone
// ESCs around the Escape timer, and Suspend/Resume/Close at a tape-chosen
// moment, with field-access probes feeding the vector-clock race oracle.
type concWorld struct {
	s    *simrt.Sched
	res  *RunResult
	env  *sessionEnv
	caps simterm.Caps

	qsize        int
	lin          bool // pure mode: only tracked events travel through the queue
	posters      []posterPlan
	queriers     []int
	spin         bool
	userIn       bool
	suspendAfter int
	closeEarly   bool
	preempt      int
	stall        int // 1/stall of scheduling steps freeze the chosen task (0 = never)
	frames       int

	vx           *vaxis.Vaxis
	sp           *spinner.Model
	history      []porcupine.Operation
	got          map[int][]int // poster -> sequence numbers in arrival order
	sent         map[int][]postRec
	postersLeft  int
	queriersLeft int
	suspended    bool
	closing      bool
	closed       bool
	mainDone     bool
	closeTook    time.Duration
	suspTook     time.Duration
	pollCalls    int
	syncRan      int
	syncPosted   int
	inQuery      int
	untracked    int
	curCall      int
	// queriers blocked in a colour query whose reply never comes
	parked     int
	everParked int
	neverReply bool
	didSuspend bool
	// Resize requests come with a real change of the terminal's size
	sizeChanges bool
	inShutdown  string
}

type posterPlan struct {
	Ops   []int // 0 PostEvent, 1 PostEventBlocking, 2 SyncFunc, 3 Resize
	GapUs []int64
}

type postRec struct {
	seq      int
	blocking bool
	kind     int
	call     int
	ret      int
}

type trackedEvent struct {
	Poster int
	Seq    int
}

func init() {
	Register("C10", func() World { return &concWorld{} })
}

func (w *concWorld) SimName() string { return "concWorld" }

func (w *concWorld) Describe() any {
	var ps []string
	names := []string{"PostEvent", "PostEventBlocking", "SyncFunc", "Resize"}
	for i, p := range w.posters {
		var ops []string
		for k, o := range p.Ops {
			ops = append(ops, fmt.Sprintf("+%dus %s", p.GapUs[k], names[o]))
		}
		ps = append(ps, fmt.Sprintf("poster %d: %s", i, strings.Join(ops, ", ")))
	}
	return map[string]any{"queue": w.qsize, "linearizability_mode": w.lin, "posters": ps, "queriers": w.queriers, "spinner": w.spin,
		"user_input": w.userIn, "suspend_after_events": w.suspendAfter, "preempt_1_in": w.preempt, "stall_1_in": w.stall, "caps": capsString(w.caps)}
}

func (w *concWorld) Build(t *simrt.Tape, spec RunSpec) {
	w.caps = capsFromBits(t.Draw(1<<numGating), t)
	w.caps.OSC10, w.caps.OSC11, w.caps.OSC4 = true, true, true
	w.lin = t.Draw(3) == 0
	switch {
	case w.lin:
		w.qsize = 1 + t.Draw(4)
	case t.Draw(3) == 0:
		w.qsize = 1 + t.Draw(8)
	default:
		w.qsize = []int{16, 64, 1024}[t.Draw(3)]
	}
	np := 1 + t.Draw(4)
	for i := 0; i < np; i++ {
		var p posterPlan
		n := 1 + t.Draw(8)
		for k := 0; k < n; k++ {
			op := t.Draw(4)
			if w.lin && op == 3 {
				op = t.Draw(3)
			}
			if w.lin && op == 2 && t.Draw(4) != 0 {
				op = t.Draw(2)
			}
			p.Ops = append(p.Ops, op)
			g := int64(0)
			if t.Draw(2) == 0 {
				g = drawGrid(t, 20_000)
			}
			p.GapUs = append(p.GapUs, g)
		}
		w.posters = append(w.posters, p)
	}
	if !w.lin {
		// at most one task per colour query (they share one reply channel
		// per kind: a reply cannot be attributed to one of two askers)
		used := map[int]bool{}
		for k := t.Draw(4); k > 0; k-- {
			kind := t.Draw(4)
			if kind != 0 && used[kind] {
				kind = 0
			}
			used[kind] = true
			w.queriers = append(w.queriers, kind)
		}
		w.spin = t.Draw(3) == 0
		w.userIn = t.Draw(2) == 0
	}
	w.suspendAfter = -1
	if t.Draw(2) == 0 && !w.lin {
		w.suspendAfter = t.Draw(12)
	}
	w.closeEarly = t.Draw(4) == 0
	w.sizeChanges = t.Draw(2) == 0 && !w.caps.InBandResize && !w.lin
	w.preempt = []int{0, 0, 200, 50, 20}[t.Draw(5)]
	w.frames = 1 + t.Draw(4)
	w.stall = []int{0, 0, 300, 60}[t.Draw(4)]
}

func (w *concWorld) Start(s *simrt.Sched, res *RunResult) {
	w.s, w.res = s, res
	s.MaxSteps = 300000
	s.MaxTime = 30 * time.Minute
	s.RaceOn = true
	s.Preempt = w.preempt
	// stall fault: the application's own threads (main, posters, queriers,
	// resizers) may be descheduled for up to 70 simulated ms at any of their
	// scheduling points; the terminal and the wire keep their planned latency
	s.StallOneIn, s.StallMax = w.stall, 6
	s.StallOK = func(t *simrt.Task) bool { return t.Name != "terminal" && t.Name != "wire" }
	w.got = map[int][]int{}
	w.sent = map[int][]postRec{}
	w.env = newSessionEnv(s, res, 6, 20, w.caps)
	w.env.replyDelay = promptReplies(s)
	w.env.chunkMode = s.Tape.Draw(4)
	w.env.start()
	s.Go("main", w.main)
}

func (w *concWorld) record(client int, in, out any, call, ret int) {
	w.history = append(w.history, porcupine.Operation{ClientId: client, Input: in, Output: out, Call: int64(call), Return: int64(ret)})
}

func (w *concWorld) poster(i int) {
	defer func() {
		w.postersLeft--
		simrt.Notify(w)
	}()
	p := w.posters[i]
	for k, op := range p.Ops {
		if p.GapUs[k] > 0 {
			simrt.Sleep(time.Duration(p.GapUs[k]) * time.Microsecond)
		} else {
			simrt.Yield("poster.next")
		}
		if w.closing {
			return
		}
		ev := trackedEvent{Poster: i, Seq: k}
		call := w.s.Steps
		switch op {
		case 0:
			w.vx.PostEvent(ev)
			w.sent[i] = append(w.sent[i], postRec{seq: k, kind: 0, call: call, ret: w.s.Steps})
			w.res.Fault("post-nonblocking")
		case 1:
			w.vx.PostEventBlocking(ev)
			w.sent[i] = append(w.sent[i], postRec{seq: k, blocking: true, kind: 1, call: call, ret: w.s.Steps})
			w.res.Fault("post-blocking")
		case 2:
			seq := k
			w.syncPosted++
			w.vx.SyncFunc(func() {
				w.syncRan++
				w.got[i] = append(w.got[i], seq)
				if w.lin {
					w.record(1000, linIn{Op: "poll"}, trackedEvent{i, seq}, w.curCall, w.s.Steps)
				}
			})
			w.sent[i] = append(w.sent[i], postRec{seq: k, kind: 2, call: call, ret: w.s.Steps})
			w.res.Fault("syncfunc")
		case 3:
			if w.sizeChanges {
				// the terminal really changes size; the application
				// learns it through the manual trigger
				r, c := 2+w.s.Tape.Draw(8), 4+w.s.Tape.Draw(24)
				w.env.term.Resize(r, c)
				w.res.Fault("terminal-size-change")
			}
			w.vx.Resize()
			w.res.Fault("resize-request")
		}
	}
}

func (w *concWorld) querier(kind int) {
	defer func() {
		w.queriersLeft--
		simrt.Notify(w)
	}()
	for n := 0; n < 3; n++ {
		simrt.Sleep(time.Duration(Grid[w.s.Tape.Draw(10)]) * time.Microsecond)
		// queries are made while the input goroutine runs
		simrt.WaitUntil(w, "querier.wait-running", func() bool { return !w.suspended || w.closing })
		if w.closing {
			return
		}
		w.inQuery++
		simrt.SyncPoint(w.env)
		// the reply to this query comes early, late (around the requester's
		// time-out) or never
		rk := []string{"CPR", "OSC11", "OSC10", "OSC4"}[kind]
		pol := w.s.Tape.Draw(12)
		if pol >= 3 && pol < 6 {
			pol = 1
		}
		if pol == 2 && kind != 0 && w.s.Tape.Draw(3) != 0 {
			pol = 1
		}
		switch pol {
		case 1:
			d := time.Duration(Grid[w.s.Tape.Draw(len(Grid))]) * time.Microsecond
			w.env.replyDelay = func(k string) (time.Duration, bool) {
				if k == rk {
					return d, false
				}
				return 0, false
			}
			w.res.Fault("reply-late")
		case 2:
			w.env.replyDelay = func(k string) (time.Duration, bool) { return 0, k == rk }
			w.neverReply = true
			w.res.Fault("reply-never")
		default:
			w.env.replyDelay = promptReplies(w.s)
		}
		// the colour queries have no time-out: without a reply their caller
		// stays blocked (reported once per run at the end); the session goes on
		never := w.neverReply && kind != 0
		w.neverReply = false
		if never {
			w.parked++
			w.everParked = kind
			simrt.Notify(w)
		}
		switch kind {
		case 0:
			w.vx.CursorPosition()
		case 1:
			w.vx.QueryBackground()
		case 2:
			w.vx.QueryForeground()
		case 3:
			w.vx.QueryColor(vaxis.IndexColor(3))
		}
		if never {
			w.parked--
		}
		w.inQuery--
		simrt.SyncPoint(w.env)
		simrt.Notify(w)
		w.res.Fault("query-from-task")
	}
}

func (w *concWorld) user() {
	// keys, lone ESC bytes, mouse reports, and reports nobody asked for
	// (a terminal may send size, position, colour and attribute reports at
	// any time; twice in a row included)
	keys := []string{"a", "\x1b", "\x1b[A", "\x1b", "b", "\x1b[<0;1;1M", "\x1ba", "\x1b",
		"\x1b[8;6;20t", "\x1b[8;6;20t\x1b[8;6;20t", "\x1b[4;96;160t\x1b[4;96;160t", "\x1b[1;1R\x1b[1;1R", "\x1b]11;rgb:0000/0000/0000\x1b\\\x1b]11;rgb:0000/0000/0000\x1b\\",
		"\x1b]10;rgb:ffff/ffff/ffff\x07\x1b]10;rgb:ffff/ffff/ffff\x07", "\x1b]4;3;rgb:8080/8080/0000\x07\x1b]4;3;rgb:8080/8080/0000\x07", "\x1b[?62;4c"}
	for i := 0; i < 16 && !w.closing; i++ {
		gaps := []int64{0, 1000, 9000, 10000, 11000, 20000}
		simrt.Sleep(time.Duration(gaps[w.s.Tape.Draw(len(gaps))]) * time.Microsecond)
		if w.closing {
			return
		}
		w.env.send([]byte(keys[w.s.Tape.Draw(len(keys))]), 0)
		w.res.Fault("input-with-lone-esc")
	}
}

func (w *concWorld) main() {
	defer func() {
		w.mainDone = true
		w.env.shutdown()
		w.s.Finish()
	}()
	vx, err := newVaxis(w.env, vaxis.Options{EventQueueSize: w.qsize})
	if err != nil {
		w.res.Violate("new-failed", "vaxis.New", "%v", err)
		return
	}
	w.vx = vx
	// drain what start-up left in the queue
	w.env.settle()
	for {
		var ev vaxis.Event
		var ok bool
		if simrt.Select("main.drain", true, simrt.CaseRecv(vx.Events(), &ev, &ok)) < 0 {
			break
		}
	}
	if w.spin {
		w.sp = spinner.New(vx, 5*time.Millisecond)
		w.sp.Start()
	}
	w.postersLeft = len(w.posters)
	for i := range w.posters {
		idx := i
		w.s.Go(fmt.Sprintf("poster-%d", i), func() { w.poster(idx) })
	}
	w.queriersLeft = len(w.queriers)
	for _, k := range w.queriers {
		kind := k
		w.s.Go("querier", func() { w.querier(kind) })
	}
	if w.userIn {
		w.s.Go("user", w.user)
	}
	events := 0
	quiet := 0
	deadline := w.s.Now() + 5*time.Minute
	for {
		if w.postersLeft == 0 && w.queriersLeft-w.parked <= 0 && w.allBlockingReceived() {
			// give stragglers (non-blocking posts still in the queue) a chance
			quiet++
			if !w.pollOnce(20*time.Millisecond, &events) || quiet > 40 {
				break
			}
			continue
		}
		if w.s.Now() > deadline {
			break
		}
		if w.closeEarly && events >= 3 {
			break
		}
		w.pollOnce(500*time.Millisecond, &events)
		if events%3 == 0 {
			win := vx.Window()
			win.Clear()
			win.Print(vaxis.Segment{Text: fmt.Sprintf("n=%d", events)})
			if w.sp != nil {
				w.sp.Draw(win)
			}
			vx.Render()
		}
		if w.suspendAfter >= 0 && events >= w.suspendAfter && !w.suspended && !w.didSuspend {
			w.didSuspend = true
			w.suspended = true
			// queries are only legal while the input goroutine runs: let
			// the ones in flight finish (the main task keeps polling)
			for lim := w.s.Now() + 20*time.Second; w.s.Now() < lim && w.inQuery-w.parked > 0; {
				w.pollOnce(10*time.Millisecond, &events)
			}
			if w.inQuery-w.parked > 0 {
				w.suspended = false
				simrt.Notify(w)
				continue
			}
			simrt.SyncPoint(w.env)
			t0 := w.s.Now()
			w.inShutdown = "Suspend"
			vx.Suspend()
			w.inShutdown = ""
			w.suspTook = w.s.Now() - t0
			w.res.Fault("suspend-resume")
			simrt.Sleep(time.Duration(Grid[w.s.Tape.Draw(8)]) * time.Microsecond)
			vx.Resume()
			w.suspended = false
			simrt.SyncPoint(w.env)
			simrt.Notify(w)
		}
	}
	// a requested resize is never lost: once the posters are done a Render
	// brings the application's idea of the size in line with the terminal
	if w.sizeChanges && !w.closeEarly && w.postersLeft == 0 && !w.suspended {
		for i := 0; i < 3; i++ {
			vx.Render()
			for w.pollOnce(5*time.Millisecond, &events) {
			}
		}
		w.env.quiesce()
		cols, rows := vx.Window().Size()
		if rows != w.env.term.Rows || cols != w.env.term.Cols {
			w.res.Violate("resize-lost", "vaxis.Render", "the terminal is %dx%d (rows x cols) since the last Resize() request was made; after three further Render calls the application's window is still %dx%d\ncase: %s", w.env.term.Rows, w.env.term.Cols, rows, cols, toJSON(w.Describe()))
		}
	}
	w.closing = true
	simrt.Notify(w)
	if w.sp != nil {
		// Stop is delivered through the event queue with a non-blocking post:
		// on a full queue it is dropped, an application has to try again
		for i := 0; i < 100 && w.sp.SimSpinning(); i++ {
			if i%10 == 0 {
				w.sp.Stop()
			}
			w.pollOnce(20*time.Millisecond, &events)
		}
	}
	// posters blocked in PostEventBlocking must be able to finish: keep polling
	for lim := w.s.Now() + 20*time.Second; w.s.Now() < lim && (w.postersLeft > 0 || w.queriersLeft-w.parked > 0); {
		w.pollOnce(50*time.Millisecond, &events)
	}
	// whatever a returned post left in the queue is still the application's
	for {
		var ev vaxis.Event
		var ok bool
		if simrt.Select("main.final-drain", true, simrt.CaseRecv(vx.Events(), &ev, &ok)) < 0 || !ok {
			break
		}
		w.handle(ev, w.s.Steps)
	}
	t0 := w.s.Now()
	w.inShutdown = "Close"
	vx.Close()
	w.inShutdown = ""
	w.closeTook = w.s.Now() - t0
	w.closed = true
	// let pending timers (Escape timer, spinner ticker) run out
	simrt.Sleep(2 * time.Second)
}

func (w *concWorld) allBlockingReceived() bool {
	for p, recs := range w.sent {
		have := map[int]bool{}
		for _, s := range w.got[p] {
			have[s] = true
		}
		for _, r := range recs {
			if r.blocking && !have[r.seq] {
				return false
			}
		}
	}
	return true
}

// pollOnce waits up to d for one event and processes it.
func (w *concWorld) pollOnce(d time.Duration, events *int) bool {
	var ev vaxis.Event
	var ok bool
	tm := time.NewTimer(d)
	call := w.s.Steps
	k := simrt.Select("main.poll", false, simrt.CaseRecv(w.vx.Events(), &ev, &ok), simrt.CaseRecv(tm.C, nil, nil))
	tm.Stop()
	if k != 0 || !ok {
		return false
	}
	w.pollCalls++
	*events++
	w.handle(ev, call)
	return true
}

func (w *concWorld) handle(ev vaxis.Event, call int) {
	switch e := ev.(type) {
	case trackedEvent:
		w.got[e.Poster] = append(w.got[e.Poster], e.Seq)
		if w.lin {
			w.record(1000, linIn{Op: "poll"}, e, call, w.s.Steps)
		}
	case vaxis.SyncFunc:
		w.curCall = call
		e()
	case vaxis.Redraw:
		w.untracked++
	default:
		w.untracked++
		if w.lin {
			w.res.Diag = append(w.res.Diag, fmt.Sprintf("untracked event in linearizability mode: %T %+v", ev, ev))
		}
	}
}

// ---------------------------------------------------------- porcupine model

type linIn struct {
	Op       string // post, postb, poll
	Ev       trackedEvent
	Capacity int
}

type linQueue struct {
	items []trackedEvent
}

func queueModel(capacity int) porcupine.Model {
	return porcupine.Model{
		Init: func() interface{} { return []trackedEvent{} },
		Step: func(state, input, output interface{}) (bool, interface{}) {
			q := state.([]trackedEvent)
			in := input.(linIn)
			switch in.Op {
			case "postb":
				if len(q) >= capacity {
					return false, q
				}
				return true, append(append([]trackedEvent{}, q...), in.Ev)
			case "post":
				delivered := output.(bool)
				if delivered {
					if len(q) >= capacity {
						return false, q
					}
					return true, append(append([]trackedEvent{}, q...), in.Ev)
				}
				// a non-blocking post may fail only when the queue is full
				return len(q) >= capacity, q
			case "poll":
				ev := output.(trackedEvent)
				if len(q) == 0 || q[0] != ev {
					return false, q
				}
				return true, append([]trackedEvent{}, q[1:]...)
			}
			return false, q
		},
		Equal: func(a, b interface{}) bool {
			x, y := a.([]trackedEvent), b.([]trackedEvent)
			if len(x) != len(y) {
				return false
			}
			for i := range x {
				if x[i] != y[i] {
					return false
				}
			}
			return true
		},
		DescribeOperation: func(input, output interface{}) string { return fmt.Sprintf("%+v -> %+v", input, output) },
	}
}

// ------------------------------------------------------------------- oracle

func (w *concWorld) Finish(s *simrt.Sched, res *RunResult) {
	res.Nontrivial = len(w.posters) > 1 || len(w.queriers) > 0 || w.userIn
	res.EndState = fmt.Sprintf("%s polls=%d races=%d", s.End, w.pollCalls, len(s.Races))
	res.Probes = map[string]int{"accesses-checked": s.Accesses}
	res.FaultN("task-stalled", s.Stalls)
	taskPanics(s, res, "panic")
	// (a) data races
	for _, r := range s.Races {
		site := r
		if i := strings.Index(r, " (task"); i > 0 {
			site = r[:i]
		}
		res.Violate("data-race", raceKey(r), "unsynchronised conflicting accesses (no happens-before edge through any lock, channel, atomic, goroutine start or timer): %s\ncase: %s", r, toJSON(w.Describe()))
		_ = site
	}
	if w.vx == nil {
		return
	}
	// (c) liveness of the run and of Close/Suspend
	// (with a spinner ticking the run ends at the step limit instead of in a
	// global deadlock: the picture is the same)
	if !w.mainDone && s.End != simrt.EndFinished && w.inShutdown != "" && len(w.vx.Events()) == cap(w.vx.Events()) {
		res.Violate("shutdown-blocks-on-full-queue", "vaxis."+w.inShutdown, "%s never returned: the event queue (capacity %d) is full, the input goroutine is blocked posting a terminal event into it, so the parser cannot hand over its last items and %s waits for the parser for ever - the only consumer of the queue is the caller of %s: %v\ncase: %s", w.inShutdown, w.qsize, w.inShutdown, w.inShutdown, s.Picture(), toJSON(w.Describe()))
		return
	}
	if !w.mainDone || s.End != simrt.EndFinished {
		res.Violate("stuck", "session", "the session did not complete (%s): %v\ncase: %s", s.End, s.Picture(), toJSON(w.Describe()))
		return
	}
	if w.closeTook > 30*time.Second || w.suspTook > 30*time.Second {
		res.Violate("slow-shutdown", "vaxis.Close", "Close took %v, Suspend %v of simulated time", w.closeTook, w.suspTook)
	}
	if w.parked > 0 {
		name := []string{"", "QueryBackground", "QueryForeground", "QueryColor"}[w.everParked]
		res.Violate("query-blocks-forever", "vaxis."+name, "%s was called while the input goroutine ran; the terminal never answered and the caller is still blocked at the end of the session, after Close (no time-out, no wake-up at Close)\ncase: %s", name, toJSON(w.Describe()))
	}
	// (b) order and completeness
	for p, recs := range w.sent {
		got := w.got[p]
		pos := map[int]int{}
		for i, sq := range got {
			if _, dup := pos[sq]; dup {
				res.Violate("event-duplicated", "event queue", "event %d of poster %d was delivered twice: %v", sq, p, got)
				return
			}
			pos[sq] = i
		}
		last := -1
		for _, r := range recs {
			i, ok := pos[r.seq]
			if !ok {
				if r.blocking {
					res.Violate("blocking-post-lost", "vaxis.PostEventBlocking", "event %d posted by poster %d with PostEventBlocking (it returned) was never delivered although the main task kept polling; delivered from this poster: %v\ncase: %s", r.seq, p, got, toJSON(w.Describe()))
					return
				}
				continue
			}
			if i < last {
				res.Violate("event-order", "event queue", "events of poster %d arrived out of posting order: %v\ncase: %s", p, got, toJSON(w.Describe()))
				return
			}
			last = i
		}
	}
	// linearizability of the queue history
	if w.lin {
		ops := append([]porcupine.Operation(nil), w.history...)
		for p, recs := range w.sent {
			have := map[int]bool{}
			for _, sq := range w.got[p] {
				have[sq] = true
			}
			for _, r := range recs {
				switch r.kind {
				case 0, 2:
					ops = append(ops, porcupine.Operation{ClientId: p, Input: linIn{Op: "post", Ev: trackedEvent{p, r.seq}}, Output: have[r.seq], Call: int64(r.call), Return: int64(r.ret)})
				case 1:
					ops = append(ops, porcupine.Operation{ClientId: p, Input: linIn{Op: "postb", Ev: trackedEvent{p, r.seq}}, Output: true, Call: int64(r.call), Return: int64(r.ret)})
				}
			}
		}
		// a queued function (SyncFunc) is a non-blocking post of a value
		// identified by its poster and sequence number; events the library
		// itself posts are not tracked: only use the history when there were none
		if w.untracked > 0 {
			res.Probes["linearizability-skipped-foreign-event"]++
		}
		if w.untracked == 0 && len(ops) > 0 && len(ops) <= 48 {
			// undelivered events still in the queue at the end are fine
			sort.Slice(ops, func(i, j int) bool { return ops[i].Call < ops[j].Call })
			r := porcupine.CheckOperationsTimeout(queueModel(w.qsize), ops, 5*time.Second)
			switch r {
			case porcupine.Illegal:
				res.Violate("not-linearizable", "event queue", "the history of posts and polls is not linearizable against a FIFO queue of capacity %d in which a non-blocking post may fail only when the queue is full: %v", w.qsize, opsString(ops))
			case porcupine.Unknown:
				res.Inconclusive++
			default:
				res.Probes["linearizability-checked"]++
			}
		}
	}
	// (d) census: nothing started by the library outlives Close
	if live := s.LiveLibTasks(); len(live) > 0 {
		res.Violate("goroutine-leak", leakSite(live), "tasks started by the library are still alive 2 simulated seconds after Close returned: %v\ncase: %s", live, toJSON(w.Describe()))
	}
}

func raceKey(r string) string {
	// "write a.go:1 (task ..) || read b.go:2 (task ..)"
	parts := strings.Split(r, " || ")
	var sites []string
	for _, p := range parts {
		f := strings.Fields(p)
		if len(f) >= 2 {
			sites = append(sites, f[1])
		}
	}
	sort.Strings(sites)
	return strings.Join(sites, "|")
}

func leakSite(live []string) string {
	if len(live) == 0 {
		return ""
	}
	s := live[0]
	if i := strings.Index(s, "/"); i >= 0 {
		s = s[i+1:]
	}
	return s
}

func opsString(ops []porcupine.Operation) []string {
	var out []string
	for _, o := range ops {
		out = append(out, fmt.Sprintf("[%d..%d] client %d %+v -> %+v", o.Call, o.Return, o.ClientId, o.Input, o.Output))
	}
	return out
}
