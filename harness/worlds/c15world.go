package worlds

import (
	"fmt"
	"sort"
	"strings"
	"time"

	"git.sr.ht/~rockorager/vaxis"
	"git.sr.ht/~rockorager/vaxis/simrt"
	"git.sr.ht/~rockorager/vaxis/vxfw"

	"simharness/simterm"
)

// vxfwWorld (C15): the real vxfw.App.Run loop (its 8 ms frame timer on the
// simulated clock, the real Vaxis session under it) over generated trees of
// instrumented widgets. Every CaptureEvent / HandleEvent call is logged; a
// model of the statement (capture - target - bubble along the focus path or
// the chain of widgets under the pointer, focus and hover bookkeeping,
// commands) replays the log.

type c15Act int

const (
	actNone c15Act = iota
	actConsume
	actRedraw
	actConsumeRedraw     // BatchCmd{Redraw, Consume}
	actNested            // BatchCmd{BatchCmd{Redraw}, []Command{Consume}}
	actFocus             // FocusWidgetCmd(target)
	actFocusBatch        // BatchCmd{FocusWidgetCmd(target), Redraw}
	actRefresh           // RefreshCmd + Redraw
	actConsumeThenRedraw // BatchCmd{Consume, Redraw}: order inside a batch does not matter
	actConsumeThenFocus  // BatchCmd{[]Command{Consume}, FocusWidgetCmd(target)}
	numActs
)

type c15Widget struct {
	w        *vxfwWorld
	id       int
	parent   *c15Widget
	kids     []*c15Widget
	col, row int
	wd, ht   int
	z        int
	capturer bool
	// behaviour: acts[phase][class]
	acts   map[string]c15Act
	focusT map[string]int // target widget of a focus action
	self   vxfw.Widget
}

type c15Cap struct{ *c15Widget }

func (c c15Cap) CaptureEvent(ev vaxis.Event) (vxfw.Command, error) {
	return c.c15Widget.handle(ev, "capture")
}

type c15Log struct {
	Wid   int
	Phase string // capture, target, bubble
	Class string // init key mouse custom focusin focusout enter leave other
	ID    string
	At    time.Duration
	Act   c15Act
	Seq   int
}

func classify(ev vaxis.Event) (class, id string) {
	switch e := ev.(type) {
	case vxfw.Init:
		return "init", "init"
	case vaxis.Key:
		return "key", fmt.Sprintf("key:%d", e.Keycode)
	case vaxis.Mouse:
		return "mouse", fmt.Sprintf("mouse:%d,%d,%d,%d", e.Col, e.Row, e.Button, e.EventType)
	case c15Custom:
		return "custom", fmt.Sprintf("custom:%d", e.N)
	case vaxis.FocusIn:
		return "focusin", "FocusIn"
	case vaxis.FocusOut:
		return "focusout", "FocusOut"
	case vxfw.MouseEnter:
		return "enter", "MouseEnter"
	case vxfw.MouseLeave:
		return "leave", "MouseLeave"
	}
	return "other", fmt.Sprintf("%T", ev)
}

type c15Custom struct{ N int }

func (wd *c15Widget) HandleEvent(ev vaxis.Event, phase vxfw.EventPhase) (vxfw.Command, error) {
	p := "target"
	switch phase {
	case vxfw.CapturePhase:
		p = "capture"
	case vxfw.BubblePhase:
		p = "bubble"
	}
	return wd.handle(ev, p)
}

func (wd *c15Widget) handle(ev vaxis.Event, phase string) (vxfw.Command, error) {
	class, id := classify(ev)
	w := wd.w
	if class == "other" {
		w.others++
		return nil, nil
	}
	act := wd.acts[phase+"/"+class]
	if class == "key" {
		if k := ev.(vaxis.Key); k.Keycode == c15QuitKey {
			act = actNone
			if wd.parent == nil && phase == "capture" {
				w.seq++
				w.log = append(w.log, c15Log{Wid: wd.id, Phase: phase, Class: class, ID: id, At: w.s.Now(), Act: actNone, Seq: w.seq})
				w.quitReturned++
				return vxfw.BatchCmd{vxfw.QuitCmd{}, vxfw.ConsumeEventCmd{}}, nil
			}
		}
	}
	if w.quitReturned > 0 {
		w.afterQuit++
	}
	w.seq++
	w.log = append(w.log, c15Log{Wid: wd.id, Phase: phase, Class: class, ID: id, At: w.s.Now(), Act: act, Seq: w.seq})
	switch act {
	case actConsume:
		return vxfw.ConsumeEventCmd{}, nil
	case actRedraw:
		return vxfw.RedrawCmd{}, nil
	case actConsumeRedraw:
		return vxfw.ConsumeAndRedraw(), nil
	case actNested:
		return vxfw.BatchCmd{vxfw.BatchCmd{vxfw.RedrawCmd{}}, []vxfw.Command{vxfw.ConsumeEventCmd{}}}, nil
	case actFocus:
		return vxfw.FocusWidgetCmd(w.widgets[wd.focusT[phase+"/"+class]].self), nil
	case actFocusBatch:
		return vxfw.BatchCmd{vxfw.FocusWidgetCmd(w.widgets[wd.focusT[phase+"/"+class]].self), vxfw.RedrawCmd{}}, nil
	case actRefresh:
		return vxfw.BatchCmd{vxfw.RefreshCmd{}, vxfw.RedrawCmd{}}, nil
	case actConsumeThenRedraw:
		return vxfw.BatchCmd{vxfw.ConsumeEventCmd{}, vxfw.RedrawCmd{}}, nil
	case actConsumeThenFocus:
		return vxfw.BatchCmd{[]vxfw.Command{vxfw.ConsumeEventCmd{}}, vxfw.FocusWidgetCmd(w.widgets[wd.focusT[phase+"/"+class]].self)}, nil
	}
	return nil, nil
}

func (wd *c15Widget) Draw(ctx vxfw.DrawContext) (vxfw.Surface, error) {
	w := wd.w
	width, height := wd.wd, wd.ht
	if wd.parent == nil {
		width, height = int(ctx.Max.Width), int(ctx.Max.Height)
		w.draws = append(w.draws, w.s.Now())
		w.seq++
		w.drawSeq = append(w.drawSeq, w.seq)
	}
	s := vxfw.NewSurface(uint16(width), uint16(height), wd.self)
	g := string(rune('A' + wd.id))
	for i := range s.Buffer {
		s.Buffer[i] = vaxis.Cell{Character: vaxis.Character{Grapheme: g, Width: 1}}
	}
	for _, k := range wd.kids {
		cs, _ := k.self.Draw(vxfw.DrawContext{Max: vxfw.Size{Width: uint16(k.wd), Height: uint16(k.ht)}, Characters: ctx.Characters})
		s.AddChild(k.col, k.row, cs)
		s.Children[len(s.Children)-1].ZIndex = k.z
	}
	return s, nil
}

const c15QuitKey = rune(0x2460)

type c15Send struct {
	Kind  int // 0 key, 1 mouse, 2 term focus in, 3 term focus out, 4 custom (posted by a task)
	Key   rune
	Mouse vaxis.Mouse
	N     int
	GapUs int64
	Scr   bool // scramble the display before (with a refresh action pending)
}

type vxfwWorld struct {
	s    *simrt.Sched
	res  *RunResult
	rows int
	cols int

	widgets   []*c15Widget
	root      *c15Widget
	sends     []c15Send
	overlap   bool
	quitPhase string
	known     map[string]bool

	env          *sessionEnv
	app          *vxfw.App
	log          []c15Log
	draws        []time.Duration
	others       int
	quitReturned int
	afterQuit    int
	runReturned  bool
	runErr       error
	runAt        time.Duration
	quitSentAt   time.Duration
	done         bool
	idleDraws    int
	lastSendAt   time.Duration
	termScrAt    []time.Duration
	postersLeft  int
	idleAt       time.Duration
	dirtyAtIdle  int
	scrDirty     int
	seq          int
	drawSeq      []int
	scrSeq       int
	idleSeq      int
}

func init() {
	Register("C15", func() World { return &vxfwWorld{} })
}

func (w *vxfwWorld) SimName() string { return "vxfwWorld" }

func (w *vxfwWorld) Describe() any {
	var tree []string
	for _, wd := range w.widgets {
		p := -1
		if wd.parent != nil {
			p = wd.parent.id
		}
		var acts []string
		for k, a := range wd.acts {
			if a != actNone {
				s := fmt.Sprintf("%s=%s", k, actName(a))
				if a == actFocus || a == actFocusBatch || a == actConsumeThenFocus {
					s += fmt.Sprintf("(%c)", 'A'+wd.focusT[k])
				}
				acts = append(acts, s)
			}
		}
		sort.Strings(acts)
		tree = append(tree, fmt.Sprintf("%c parent=%d at (%d,%d) %dx%d z=%d capturer=%v %s", 'A'+wd.id, p, wd.col, wd.row, wd.wd, wd.ht, wd.z, wd.capturer, strings.Join(acts, " ")))
	}
	var ev []string
	for _, s := range w.sends {
		ev = append(ev, fmt.Sprintf("+%dus %s", s.GapUs, sendString(s)))
	}
	return map[string]any{"size": fmt.Sprintf("%dx%d", w.rows, w.cols), "widgets": tree, "events": ev, "quit_in": w.quitPhase, "overlapping_siblings": w.overlap}
}

func actName(a c15Act) string {
	return []string{"none", "consume", "redraw", "consume+redraw", "nested-batch(redraw,consume)", "focus", "batch(focus,redraw)", "refresh", "batch(consume,redraw)", "batch([consume],focus)"}[a]
}

func sendString(s c15Send) string {
	switch s.Kind {
	case 0:
		return fmt.Sprintf("key:%d", s.Key)
	case 1:
		return fmt.Sprintf("mouse:%d,%d,%d,%d", s.Mouse.Col, s.Mouse.Row, s.Mouse.Button, s.Mouse.EventType)
	case 2:
		return "terminal-focus-in"
	case 3:
		return "terminal-focus-out"
	}
	return fmt.Sprintf("custom:%d", s.N)
}

func (w *vxfwWorld) Build(t *simrt.Tape, spec RunSpec) {
	w.known = knownSet(spec)
	w.rows, w.cols = 4+t.Draw(8), 8+t.Draw(20)
	w.overlap = t.Draw(4) == 0
	w.quitPhase = "capture"
	// tree
	mk := func(parent *c15Widget) *c15Widget {
		wd := &c15Widget{w: w, id: len(w.widgets), parent: parent, acts: map[string]c15Act{}, focusT: map[string]int{}}
		wd.capturer = t.Draw(3) == 0
		if wd.capturer {
			wd.self = c15Cap{wd}
		} else {
			wd.self = wd
		}
		w.widgets = append(w.widgets, wd)
		return wd
	}
	w.root = mk(nil)
	w.root.wd, w.root.ht = w.cols, w.rows
	if !w.root.capturer {
		w.root.capturer = true
		w.root.self = c15Cap{w.root}
	}
	var grow func(p *c15Widget, depth int)
	grow = func(p *c15Widget, depth int) {
		if depth >= 4 || len(w.widgets) >= 13 || p.wd < 2 || p.ht < 1 {
			return
		}
		n := t.Draw(4)
		if depth == 0 && n == 0 {
			n = 1
		}
		// non-overlapping siblings: vertical strips of the parent; overlapping: anywhere
		x := 0
		for i := 0; i < n && len(w.widgets) < 13; i++ {
			k := mk(p)
			k.z = i*2 + t.Draw(2)
			if w.overlap {
				k.wd, k.ht = 1+t.Draw(p.wd), 1+t.Draw(p.ht)
				k.col, k.row = t.Draw(p.wd-k.wd+1), t.Draw(p.ht-k.ht+1)
				// unique z per sibling set, order independent of creation order
				k.z = (i*7 + 3) % 11
			} else {
				if x >= p.wd {
					w.widgets = w.widgets[:len(w.widgets)-1]
					break
				}
				k.wd = 1 + t.Draw(max(1, (p.wd-x)/2))
				k.ht = 1 + t.Draw(p.ht)
				k.col, k.row = x+t.Draw(2), t.Draw(p.ht-k.ht+1)
				if k.col+k.wd > p.wd {
					k.col = p.wd - k.wd
				}
				if k.col < x {
					k.col = x
				}
				x = k.col + k.wd
			}
			p.kids = append(p.kids, k)
			grow(k, depth+1)
		}
	}
	grow(w.root, 0)
	// behaviour
	for _, wd := range w.widgets {
		for _, ph := range []string{"capture", "target", "bubble"} {
			for _, cl := range []string{"init", "key", "mouse", "custom"} {
				if t.Draw(3) != 0 {
					continue
				}
				a := c15Act(1 + t.Draw(int(numActs)-1))
				if (a == actFocus || a == actFocusBatch || a == actConsumeThenFocus) && (ph == "capture" || cl == "init" && t.Draw(2) == 0) {
					a = actRedraw
				}
				wd.acts[ph+"/"+cl] = a
				wd.focusT[ph+"/"+cl] = t.Draw(len(w.widgets))
			}
		}
		for _, cl := range []string{"focusin", "focusout", "enter", "leave"} {
			switch t.Draw(6) {
			case 0, 1:
				wd.acts["target/"+cl] = actRedraw
			case 2:
				// consuming a hover notification consumes that
				// notification, not the mouse event that caused it
				if cl == "enter" || cl == "leave" {
					wd.acts["target/"+cl] = actConsumeRedraw
				}
			}
		}
	}
	// events
	n := 5 + t.Draw(56)
	nkey, ncustom := 0, 0
	for i := 0; i < n; i++ {
		var s c15Send
		switch k := t.Draw(12); {
		case k < 5:
			s.Kind, s.Key = 0, rune(0x2200+nkey)
			nkey++
		case k < 9:
			s.Kind = 1
			s.Mouse = vaxis.Mouse{Col: t.Draw(w.cols), Row: t.Draw(w.rows), Button: []vaxis.MouseButton{vaxis.MouseLeftButton, vaxis.MouseNoButton, vaxis.MouseRightButton}[t.Draw(3)]}
			s.Mouse.EventType = []vaxis.EventType{vaxis.EventPress, vaxis.EventRelease, vaxis.EventMotion}[t.Draw(3)]
			if s.Mouse.Button == vaxis.MouseNoButton {
				s.Mouse.EventType = vaxis.EventMotion
			}
		case k < 10:
			s.Kind = 2
		case k < 11:
			s.Kind = 3
		default:
			s.Kind, s.N = 4, ncustom
			ncustom++
		}
		// gaps: none (several events against the same frame) or longer than a frame
		switch t.Draw(3) {
		case 0:
			s.GapUs = 0
		case 1:
			s.GapUs = drawGrid(t, 12_000)
		default:
			s.GapUs = 20_000 + drawGrid(t, 40_000)
		}
		s.Scr = t.Draw(6) == 0
		w.sends = append(w.sends, s)
	}
}

func (w *vxfwWorld) Start(s *simrt.Sched, res *RunResult) {
	w.s, w.res = s, res
	s.MaxSteps = 400000
	s.MaxTime = 30 * time.Minute
	caps := simterm.Caps{RGB: true, Smulx: true, Sync: s.Tape.Draw(2) == 0, Base: simterm.PWcwidth, UnicodeCore: true}
	w.env = newSessionEnv(s, res, w.rows, w.cols, caps)
	w.env.replyDelay = promptReplies(s)
	w.env.chunkMode = s.Tape.Draw(4)
	w.env.start()
	s.Go("app", w.appTask)
	s.Go("driver", w.driver)
}

func (w *vxfwWorld) appTask() {
	app, err := vxfw.NewApp(vaxis.Options{WithConsole: w.env.con})
	if err != nil {
		w.res.Violate("new-failed", "vxfw.NewApp", "%v", err)
		w.runReturned = true
		simrt.Notify(w)
		return
	}
	w.app = app
	simrt.Notify(w)
	w.runErr = app.Run(w.root.self)
	w.runReturned = true
	w.runAt = w.s.Now()
	simrt.Notify(w)
}

func (w *vxfwWorld) driver() {
	defer func() {
		w.done = true
		w.env.shutdown()
		w.s.Finish()
	}()
	simrt.WaitUntil(w, "driver.wait-app", func() bool { return w.app != nil || w.runReturned })
	if w.app == nil {
		return
	}
	// let the first frame appear
	simrt.Sleep(100 * time.Millisecond)
	w.env.settle()
	for _, sd := range w.sends {
		if sd.GapUs > 0 {
			simrt.Sleep(time.Duration(sd.GapUs) * time.Microsecond)
		}
		if w.runReturned {
			break
		}
		if sd.Scr {
			// let a frame in progress finish: simulated time only advances
			// when every task is blocked
			simrt.Sleep(time.Millisecond)
			w.env.quiesce()
			w.env.term.Scramble(func(n int) int { return w.s.Tape.Draw(n) })
			w.termScrAt = append(w.termScrAt, w.s.Now())
			w.seq++
			w.scrSeq = w.seq
			w.scrDirty = 0
			for r := 0; r < w.env.term.Rows; r++ {
				for c := 0; c < w.env.term.Cols; c++ {
					if w.env.term.Cell(r, c).Style != (simterm.Style{}) {
						w.scrDirty++
					}
				}
			}
			w.res.Fault("display-scramble")
		}
		switch sd.Kind {
		case 0:
			w.env.send([]byte(string(sd.Key)), 0)
			w.res.Fault("key")
		case 1:
			b := int(sd.Mouse.Button)
			fin := "M"
			switch sd.Mouse.EventType {
			case vaxis.EventRelease:
				fin = "m"
			case vaxis.EventMotion:
				b += 32
			}
			w.env.send([]byte(fmt.Sprintf("\x1b[<%d;%d;%d%s", b, sd.Mouse.Col+1, sd.Mouse.Row+1, fin)), 0)
			w.res.Fault("mouse")
		case 2:
			w.env.send([]byte("\x1b[I"), 0)
			w.res.Fault("terminal-focus-in")
		case 3:
			w.env.send([]byte("\x1b[O"), 0)
			w.res.Fault("terminal-focus-out")
		case 4:
			n := sd.N
			w.postersLeft++
			w.s.Go("poster", func() {
				w.app.PostEvent(c15Custom{N: n})
				w.postersLeft--
				simrt.Notify(w)
			})
			w.res.Fault("custom-event-posted")
		}
		w.lastSendAt = w.s.Now()
	}
	simrt.WaitUntil(w, "driver.wait-posters", func() bool { return w.postersLeft == 0 })
	// input stops: pending redraws must produce their frame, then the loop must be idle
	simrt.Sleep(300 * time.Millisecond)
	w.env.settle()
	before := len(w.draws)
	simrt.Sleep(500 * time.Millisecond)
	w.idleDraws = len(w.draws) - before
	w.idleAt = w.s.Now()
	w.seq++
	w.idleSeq = w.seq
	w.env.quiesce()
	t := w.env.term
	for r := 0; r < t.Rows; r++ {
		for c := 0; c < t.Cols; c++ {
			if t.Cell(r, c).Style != (simterm.Style{}) {
				w.dirtyAtIdle++
			}
		}
	}
	// quit
	w.quitSentAt = w.s.Now()
	w.env.send([]byte(string(c15QuitKey)), 0)
	w.s.Go("quit-timer", func() { simrt.Sleep(60 * time.Second); simrt.Notify(w) })
	simrt.WaitUntil(w, "driver.wait-run", func() bool { return w.runReturned || w.s.Now()-w.quitSentAt >= 60*time.Second })
	if w.runReturned {
		// nothing may be handled after the quit command was processed
		simrt.Sleep(100 * time.Millisecond)
	}
}

// ------------------------------------------------------------------ the model

type c15Model struct {
	w        *vxfwWorld
	focused  int
	entered  map[int]bool
	log      []c15Log
	pos      int
	redrawAt []time.Duration // times at which a redraw was requested
	refresh  []int           // sequence stamps of applied refresh commands
	focusChg int
}

func (m *c15Model) ancestors(id int) []int {
	var out []int
	for wd := m.w.widgets[id]; wd != nil; wd = wd.parent {
		out = append([]int{wd.id}, out...)
	}
	return out
}

// chainAt: the widgets under the pointer. Without overlapping siblings this
// is the chain root ... deepest widget containing the point. Where siblings
// overlap the statement can be read two ways (only the topmost sibling, or
// every sibling containing the point): both make the deepest widget of the
// topmost sibling the target; the reading the code implements - every
// sibling, in z-order, each with its descendants - is used.
func (m *c15Model) chainAt(col, row int) []int {
	if m.w.overlap {
		var out []int
		var walk func(wd *c15Widget, col, row int)
		walk = func(wd *c15Widget, col, row int) {
			out = append(out, wd.id)
			kids := append([]*c15Widget(nil), wd.kids...)
			sort.SliceStable(kids, func(i, j int) bool { return kids[i].z < kids[j].z })
			for _, k := range kids {
				if col >= k.col && col < k.col+k.wd && row >= k.row && row < k.row+k.ht {
					walk(k, col-k.col, row-k.row)
				}
			}
		}
		walk(m.w.root, col, row)
		return out
	}
	out := []int{0}
	cur := m.w.root
	for {
		var best *c15Widget
		for _, k := range cur.kids {
			if col >= k.col && col < k.col+k.wd && row >= k.row && row < k.row+k.ht {
				if best == nil || k.z > best.z {
					best = k
				}
			}
		}
		if best == nil {
			return out
		}
		out = append(out, best.id)
		col, row = col-best.col, row-best.row
		cur = best
	}
}

type c15Mismatch struct{ aspect, msg string }

func (m *c15Model) fail(aspect, format string, args ...any) *c15Mismatch {
	return &c15Mismatch{aspect, fmt.Sprintf(format, args...)}
}

func (m *c15Model) peek() *c15Log {
	if m.pos < len(m.log) {
		return &m.log[m.pos]
	}
	return nil
}

// expect consumes the next log entry, which must be this call.
func (m *c15Model) expect(wid int, phase, class, id string) (*c15Log, *c15Mismatch) {
	e := m.peek()
	if e == nil {
		return nil, m.fail("missing-call/"+phase, "expected %s of %s (%s) on widget %c; the log ends here", phase, id, class, 'A'+wid)
	}
	if e.Wid != wid || e.Phase != phase || e.ID != id {
		return nil, m.fail("order/"+phase, "expected %s of %s on widget %c, the next call is %s of %s on widget %c", phase, id, 'A'+wid, e.Phase, e.ID, 'A'+e.Wid)
	}
	m.pos++
	return e, nil
}

// apply applies the command a handler returned; consumed reports a ConsumeEventCmd.
func (m *c15Model) apply(e *c15Log) (consumed bool, mm *c15Mismatch) {
	switch e.Act {
	case actConsume:
		return true, nil
	case actRedraw:
		m.redrawAt = append(m.redrawAt, e.At)
	case actConsumeRedraw, actNested:
		m.redrawAt = append(m.redrawAt, e.At)
		return true, nil
	case actRefresh:
		m.redrawAt = append(m.redrawAt, e.At)
		m.refresh = append(m.refresh, e.Seq)
	case actConsumeThenRedraw:
		m.redrawAt = append(m.redrawAt, e.At)
		return true, nil
	case actFocus, actFocusBatch, actConsumeThenFocus:
		tgt := m.w.widgets[e.Wid].focusT[e.Phase+"/"+e.Class]
		if tgt != m.focused {
			old := m.focused
			// exactly one focus-out to the old widget, then one focus-in to the new one
			o, mm := m.expect(old, "target", "focusout", "FocusOut")
			if mm != nil {
				mm.aspect = "focus-change/" + mm.aspect
				return false, mm
			}
			m.focused = tgt
			m.focusChg++
			if _, mm := m.apply(o); mm != nil {
				return false, mm
			}
			i, mm := m.expect(tgt, "target", "focusin", "FocusIn")
			if mm != nil {
				mm.aspect = "focus-change/" + mm.aspect
				return false, mm
			}
			if _, mm := m.apply(i); mm != nil {
				return false, mm
			}
		}
		if e.Act == actFocusBatch {
			m.redrawAt = append(m.redrawAt, e.At)
		}
		if e.Act == actConsumeThenFocus {
			return true, nil
		}
	}
	return false, nil
}

// route: capture along chain (target excluded; a capture call on the target
// itself is accepted either way), target, bubble.
func (m *c15Model) route(chain []int, class, id string) *c15Mismatch {
	tgt := chain[len(chain)-1]
	for _, a := range chain[:len(chain)-1] {
		if !m.w.widgets[a].capturer {
			continue
		}
		e, mm := m.expect(a, "capture", class, id)
		if mm != nil {
			return mm
		}
		c, mm := m.apply(e)
		if mm != nil || c {
			return mm
		}
	}
	if e := m.peek(); e != nil && e.Wid == tgt && e.Phase == "capture" && e.ID == id && m.w.widgets[tgt].capturer {
		m.pos++
		c, mm := m.apply(e)
		if mm != nil || c {
			return mm
		}
	}
	e, mm := m.expect(tgt, "target", class, id)
	if mm != nil {
		return mm
	}
	c, mm := m.apply(e)
	if mm != nil || c {
		return mm
	}
	for i := len(chain) - 2; i >= 0; i-- {
		e, mm := m.expect(chain[i], "bubble", class, id)
		if mm != nil {
			return mm
		}
		c, mm := m.apply(e)
		if mm != nil || c {
			return mm
		}
	}
	return nil
}

// hoverBlock consumes the run of enter/leave notifications at the log position
// and checks alternation per widget; afterwards exactly `want` is entered.
func (m *c15Model) hoverBlock(want []int, why string, leavesOnly bool) *c15Mismatch {
	for {
		e := m.peek()
		if e == nil || (e.Class != "enter" && e.Class != "leave") || (leavesOnly && e.Class == "enter") {
			break
		}
		m.pos++
		switch e.Class {
		case "enter":
			if m.entered[e.Wid] {
				return m.fail("hover/double-enter", "%s: widget %c receives MouseEnter while it is already entered (no MouseLeave in between)", why, 'A'+e.Wid)
			}
			m.entered[e.Wid] = true
		case "leave":
			if !m.entered[e.Wid] {
				return m.fail("hover/leave-without-enter", "%s: widget %c receives MouseLeave without having been entered", why, 'A'+e.Wid)
			}
			delete(m.entered, e.Wid)
		}
		if _, mm := m.apply(e); mm != nil {
			return mm
		}
	}
	ws := map[int]bool{}
	for _, id := range want {
		ws[id] = true
	}
	for id := range ws {
		if !m.entered[id] {
			return m.fail("hover/not-entered", "%s: widget %c is under the pointer but has not been sent MouseEnter (entered: %s)", why, 'A'+id, idSet(m.entered))
		}
	}
	for id := range m.entered {
		if !ws[id] {
			return m.fail("hover/not-left", "%s: widget %c is no longer under the pointer (or the pointer/focus left) but has not been sent MouseLeave (entered: %s, under the pointer: %v)", why, 'A'+id, idSet(m.entered), letters(want))
		}
	}
	return nil
}

func idSet(m map[int]bool) string {
	var ids []int
	for id := range m {
		ids = append(ids, id)
	}
	sort.Ints(ids)
	return letters(ids)
}

func letters(ids []int) string {
	s := ""
	for _, id := range ids {
		s += string(rune('A' + id))
	}
	return "[" + s + "]"
}

func (w *vxfwWorld) Finish(s *simrt.Sched, res *RunResult) {
	taskPanics(s, res, "panic")
	res.Nontrivial = len(w.widgets) > 2 && len(w.sends) > 5
	res.EndState = fmt.Sprintf("%s calls=%d draws=%d", s.End, len(w.log), len(w.draws))
	res.Probes = map[string]int{"handler-calls": len(w.log), "frames": len(w.draws)}
	if w.overlap {
		res.Probes["overlapping-siblings"]++
	}
	if w.app == nil {
		return
	}
	desc := func() string { return toJSON(w.Describe()) }
	if s.End != simrt.EndFinished {
		res.Violate("stuck", "session", "the session did not complete (%s): %v\ncase: %s", s.End, s.Picture(), desc())
		return
	}
	if w.runErr != nil {
		res.Violate("run-error", "vxfw.App.Run", "Run returned %v", w.runErr)
		return
	}
	// ---- replay the log against the model
	m := &c15Model{w: w, entered: map[int]bool{}, log: w.log}
	var mm *c15Mismatch
	at := "Init"
	mm = m.route([]int{0}, "init", "init")
	ti := 0 // next terminal event
	customSeen := map[int]bool{}
	processTerminal := func(sd c15Send) *c15Mismatch {
		switch sd.Kind {
		case 0:
			return m.route(m.ancestors(m.focused), "key", fmt.Sprintf("key:%d", sd.Key))
		case 1:
			chain := m.chainAt(sd.Mouse.Col, sd.Mouse.Row)
			if mm := m.hoverBlock(chain, "mouse event at col "+fmt.Sprint(sd.Mouse.Col)+" row "+fmt.Sprint(sd.Mouse.Row), false); mm != nil {
				return mm
			}
			return m.route(chain, "mouse", sendString(sd))
		case 2:
			// terminal focus in: no notification is prescribed (one that
			// is sent nevertheless stays open or doubles the next
			// MouseEnter: caught by the hover bookkeeping)
			return nil
		case 3:
			return m.hoverBlock(nil, "terminal focus-out", true)
		}
		return nil
	}
	var terms []c15Send
	for _, sd := range w.sends {
		if sd.Kind != 4 {
			terms = append(terms, sd)
		}
	}
	terms = append(terms, c15Send{Kind: 0, Key: c15QuitKey})
	for mm == nil && m.pos < len(m.log) {
		e := m.peek()
		if e.Class == "custom" {
			var n int
			fmt.Sscanf(e.ID, "custom:%d", &n)
			if customSeen[n] {
				mm = m.fail("custom/duplicate", "custom event %d is routed a second time", n)
				break
			}
			customSeen[n] = true
			at = e.ID
			mm = m.route(m.ancestors(m.focused), "custom", e.ID)
			continue
		}
		if ti >= len(terms) {
			mm = m.fail("unexpected-call", "%s of %s on widget %c after every sent event has been accounted for", e.Phase, e.ID, 'A'+e.Wid)
			break
		}
		sd := terms[ti]
		ti++
		at = sendString(sd)
		if sd.Kind == 0 && sd.Key == c15QuitKey {
			// the quit key: the root captures it, returns QuitCmd and consumes
			_, mm = m.expect(0, "capture", "key", fmt.Sprintf("key:%d", c15QuitKey))
			break
		}
		mm = processTerminal(sd)
	}
	if mm != nil {
		from := max(0, m.pos-8)
		var ctx []string
		for i := from; i < min(len(m.log), m.pos+4); i++ {
			e := m.log[i]
			mark := "  "
			if i == m.pos {
				mark = "> "
			}
			ctx = append(ctx, fmt.Sprintf("%s%s %s on %c -> %s", mark, e.Phase, e.ID, 'A'+e.Wid, actName(e.Act)))
		}
		res.Violate("routing", mm.aspect, "while handling %s (focused widget per the statement: %c): %s\ncalls around it:\n%s\ncase: %s", at, 'A'+m.focused, mm.msg, strings.Join(ctx, "\n"), desc())
		return
	}
	// ---- commands take effect exactly once
	if !w.runReturned {
		res.Violate("quit", "vxfw.App.Run", "the root returned QuitCmd for the quit key sent at %v; Run has not returned 60 simulated seconds later: %v\ncase: %s", w.quitSentAt, s.Picture(), desc())
		return
	}
	if w.quitReturned != 1 || w.afterQuit > 0 {
		res.Violate("quit", "after-quit", "QuitCmd was returned %d times and %d handler calls were made after it\ncase: %s", w.quitReturned, w.afterQuit, desc())
		return
	}
	if w.idleDraws > 0 {
		res.Violate("redraw", "idle-frames", "%d frames were laid out during 500 ms without any event or command (a redraw request must take effect once)\ncase: %s", w.idleDraws, desc())
		return
	}
	for _, t := range m.redrawAt {
		if t >= w.quitSentAt {
			continue
		}
		ok := false
		for _, d := range w.draws {
			if d >= t {
				ok = true
				break
			}
		}
		if !ok {
			res.Violate("redraw", "no-frame", "a handler returned RedrawCmd at %v; no frame was laid out afterwards although input stopped for 300 ms\ncase: %s", t, desc())
			return
		}
	}
	// refresh: the frame after a RefreshCmd repaints everything (a scrambled
	// display is repaired), and only that frame does. Everything is ordered
	// by a global sequence stamp (handler calls, layouts, scrambles).
	lastScr, lastRefresh := w.scrSeq, -1
	if len(w.termScrAt) == 0 {
		lastScr = -1
	}
	for _, q := range m.refresh {
		if q < w.idleSeq {
			lastRefresh = q
		}
	}
	// rendered frames: every layout but the initial one (which Run computes
	// before its loop and never renders)
	var frames []int
	if len(w.drawSeq) > 1 {
		frames = w.drawSeq[1:]
	}
	frameAfter := func(q int) bool {
		for _, d := range frames {
			if d > q && d < w.idleSeq {
				return true
			}
		}
		return false
	}
	// the frame that served the refresh was laid out and flushed before the scramble
	refreshFrameBefore := func(qr, qs int) bool {
		for i, d := range frames {
			if d > qr {
				return d < qs && w.draws[i+1] < w.termScrAt[len(w.termScrAt)-1]
			}
		}
		return false
	}
	switch {
	case lastScr >= 0 && lastRefresh > lastScr && w.dirtyAtIdle > 0 && frameAfter(lastRefresh):
		res.Violate("refresh", "not-repainted", "the display was scrambled, afterwards a handler returned RefreshCmd and a frame was drawn; when input had stopped %d cells still showed the scrambled content\ncase: %s", w.dirtyAtIdle, desc())
		return
	case lastScr >= 0 && lastRefresh >= 0 && lastRefresh < lastScr && w.scrDirty > 0 && w.dirtyAtIdle == 0 && frameAfter(lastScr) && refreshFrameBefore(lastRefresh, lastScr):
		res.Violate("refresh", "sticky", "a handler returned RefreshCmd and its frame was drawn; the display was scrambled afterwards (%d cells) and only redraws were requested since: the scrambled cells were repainted nevertheless - the refresh took effect more than once\ncase: %s", w.scrDirty, desc())
		return
	}
	if lastRefresh >= 0 {
		res.Probes["refresh-commands"]++
	}
	res.Probes["focus-changes"] = m.focusChg
	res.Probes["redraw-commands"] = len(m.redrawAt)
}
