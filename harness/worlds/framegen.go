package worlds

import (
	"fmt"

	"git.sr.ht/~rockorager/vaxis"
	"git.sr.ht/~rockorager/vaxis/simrt"
	"github.com/rivo/uniseg"

	"simharness/simterm"
)

// ---------------------------------------------------------------- app model

// mcell is what the application last put into a screen cell.
type mcell struct {
	G  string
	W  int // as given to SetCell: 0 = auto-measured
	St vaxis.Style
}

type appModel struct {
	rows, cols int
	cells      [][]mcell
	curVisible bool
	curRow     int
	curCol     int
	curStyle   vaxis.CursorStyle
}

func newAppModel(rows, cols int) *appModel {
	m := &appModel{rows: rows, cols: cols, curStyle: vaxis.CursorBlock}
	m.cells = make([][]mcell, rows)
	for r := range m.cells {
		m.cells[r] = make([]mcell, cols)
	}
	return m
}

func (m *appModel) set(col, row int, c mcell) {
	if row < 0 || col < 0 || row >= m.rows || col >= m.cols {
		return
	}
	m.cells[row][col] = c
}

func (m *appModel) setStyle(col, row int, st vaxis.Style) {
	if row < 0 || col < 0 || row >= m.rows || col >= m.cols {
		return
	}
	m.cells[row][col].St = st
}

// ------------------------------------------------------------------ frames

type opKind int

const (
	opSetCell opKind = iota
	opSetStyle
	opClear
	opFill
	opPrint
	opShowCursor
	opHideCursor
)

type frameOp struct {
	Kind   opKind
	Col    int
	Row    int
	Cell   mcell
	Text   string
	Cursor vaxis.CursorStyle
}

type frameEnd int

const (
	endRender frameEnd = iota
	endRefresh
	endResize
)

type frame struct {
	Ops      []frameOp
	End      frameEnd
	NewRows  int
	NewCols  int
	Scramble bool
}

// content pools ------------------------------------------------------------

var narrowPool = []string{"a", "b", "x", "Z", "0", "#", " ", "é", "ß", "é", "x̂̃"}
var widePool = []string{"中", "文", "😀", "👍"}
var trickyPool = []string{"👍🏽", "👨‍👩‍👧", "☺️", "🇺🇸", "‍", "́", ""}

func drawGrapheme(t *simrt.Tape, rich bool) string {
	k := t.Draw(10)
	switch {
	case k < 6:
		return narrowPool[t.Draw(len(narrowPool))]
	case k < 9 || !rich:
		return widePool[t.Draw(len(widePool))]
	default:
		return trickyPool[t.Draw(len(trickyPool))]
	}
}

func drawColor(t *simrt.Tape) vaxis.Color {
	switch t.Draw(8) {
	case 0, 1, 2:
		return 0
	case 3:
		return vaxis.IndexColor(uint8(t.Draw(8)))
	case 4:
		return vaxis.IndexColor(uint8(8 + t.Draw(8)))
	case 5:
		return vaxis.IndexColor(uint8(16 + t.Draw(240)))
	case 6:
		// boundary-rich direct colours: palette entries +-1, cube midpoints
		lv := []int{0, 95, 135, 175, 215, 255, 47, 48, 115, 155, 195, 235, 8, 18, 128, 238}
		c := func() uint8 {
			v := lv[t.Draw(len(lv))] + t.Draw(3) - 1
			if v < 0 {
				v = 0
			}
			if v > 255 {
				v = 255
			}
			return uint8(v)
		}
		return vaxis.RGBColor(c(), c(), c())
	default:
		return vaxis.RGBColor(uint8(t.Draw(256)), uint8(t.Draw(256)), uint8(t.Draw(256)))
	}
}

var attrBits = []vaxis.AttributeMask{vaxis.AttrBold, vaxis.AttrDim, vaxis.AttrItalic, vaxis.AttrBlink, vaxis.AttrReverse, vaxis.AttrInvisible, vaxis.AttrStrikethrough}

func drawStyle(t *simrt.Tape) vaxis.Style {
	var st vaxis.Style
	if t.Draw(3) == 0 {
		return st
	}
	st.Foreground = drawColor(t)
	st.Background = drawColor(t)
	switch t.Draw(4) {
	case 0:
		// bold / dim interplay is the classic trap: favour those bits
		st.Attribute = []vaxis.AttributeMask{vaxis.AttrBold, vaxis.AttrDim, vaxis.AttrBold | vaxis.AttrDim, 0}[t.Draw(4)]
	case 1:
		st.Attribute = attrBits[t.Draw(len(attrBits))]
	case 2:
		for _, b := range attrBits {
			if t.Draw(2) == 1 {
				st.Attribute |= b
			}
		}
	}
	if t.Draw(3) == 0 {
		st.UnderlineStyle = vaxis.UnderlineStyle(t.Draw(6))
		if t.Draw(2) == 0 {
			st.UnderlineColor = drawColor(t)
		}
	}
	if t.Draw(5) == 0 {
		st.Hyperlink = []string{"http://a", "http://b", "x:y", "http://h/p;q=1;r"}[t.Draw(4)]
		if t.Draw(2) == 0 {
			st.HyperlinkParams = []string{"id=1", "id=2"}[t.Draw(2)]
		}
	}
	return st
}

// genFrames draws a frame history for a screen of the given size. pers is the
// personality the terminal will have while the frames are drawn; explicit
// widths, when used, agree with it.
type frameGenCfg struct {
	rows, cols int
	pers       simterm.Personality
	explicitW  bool // the terminal supports explicit-width text
	rich       bool // multi-codepoint graphemes allowed
	resizes    bool
	refreshes  bool
	maxFrames  int
	maxOps     int
}

func measureFor(cfg frameGenCfg, g string) int {
	w := simterm.Measure(cfg.pers, g)
	return w
}

func genFrames(t *simrt.Tape, cfg frameGenCfg) []frame {
	var out []frame
	rows, cols := cfg.rows, cfg.cols
	nf := 1 + t.Draw(cfg.maxFrames)
	var palette []mcell // a few cells reused so that consecutive frames differ little
	for i := 0; i < 4; i++ {
		palette = append(palette, mcell{G: drawGrapheme(t, cfg.rich), St: drawStyle(t)})
	}
	for f := 0; f < nf; f++ {
		var fr frame
		nops := t.Draw(cfg.maxOps + 1)
		for k := 0; k < nops; k++ {
			var op frameOp
			kind := t.Draw(20)
			switch {
			case kind < 11:
				op.Kind = opSetCell
				op.Col, op.Row = t.Draw(cols), t.Draw(rows)
				if t.Draw(3) == 0 {
					op.Cell = palette[t.Draw(len(palette))]
				} else {
					op.Cell = mcell{G: drawGrapheme(t, cfg.rich), St: drawStyle(t)}
				}
				if t.Draw(4) == 0 {
					// same text, toggle one attribute bit or a colour
					op.Cell.St.Attribute ^= attrBits[t.Draw(len(attrBits))]
				}
				w := measureFor(cfg, op.Cell.G)
				if w > 1 && op.Col+w > cols {
					// a glyph wider than the columns left: outside the statement
					op.Cell.G = "a"
					w = 1
				}
				if t.Draw(3) == 0 {
					op.Cell.W = w // explicit, consistent with the terminal
				}
			case kind < 13:
				op.Kind = opSetStyle
				op.Col, op.Row = t.Draw(cols), t.Draw(rows)
				op.Cell.St = drawStyle(t)
			case kind < 14:
				op.Kind = opClear
			case kind < 15:
				op.Kind = opFill
				op.Cell = mcell{G: narrowPool[t.Draw(len(narrowPool))], St: drawStyle(t)}
			case kind < 17:
				op.Kind = opPrint
				op.Row = t.Draw(rows)
				op.Col = t.Draw(cols)
				n := 1 + t.Draw(4)
				used := 0
				for j := 0; j < n; j++ {
					g := drawGrapheme(t, false)
					w := measureFor(cfg, g)
					if w < 1 || op.Col+used+w > cols {
						break
					}
					op.Text += g
					used += w
				}
				op.Cell.St = drawStyle(t)
				if op.Text == "" {
					op.Kind = opHideCursor
				}
			case kind < 19:
				op.Kind = opShowCursor
				op.Col, op.Row = t.Draw(cols), t.Draw(rows)
				op.Cursor = vaxis.CursorStyle(t.Draw(7))
			default:
				op.Kind = opHideCursor
			}
			fr.Ops = append(fr.Ops, op)
		}
		e := t.Draw(12)
		switch {
		case e == 0 && cfg.refreshes:
			fr.End = endRefresh
			fr.Scramble = t.Draw(2) == 0
		case e == 1 && cfg.resizes && f+1 < nf:
			fr.End = endResize
			fr.NewRows, fr.NewCols = 1+t.Draw(6), 1+t.Draw(12)
			if t.Draw(4) == 0 {
				fr.NewRows, fr.NewCols = 1+t.Draw(12), 1+t.Draw(24)
			}
			fr.Scramble = t.Draw(2) == 0
			if fr.NewRows == rows && fr.NewCols == cols {
				fr.NewCols++
			}
			rows, cols = fr.NewRows, fr.NewCols
		default:
			fr.End = endRender
		}
		out = append(out, fr)
	}
	return out
}

// applyOps draws one frame's operations both into the real Vaxis and into the
// application's own record.
func applyOps(vx *vaxis.Vaxis, m *appModel, ops []frameOp, pers simterm.Personality) {
	win := vx.Window()
	for _, op := range ops {
		// the screen may have been resized since the history was generated:
		// keep every operation inside the domain the statement defines
		switch op.Kind {
		case opSetCell, opSetStyle, opPrint:
			if op.Col >= m.cols || op.Row >= m.rows {
				continue
			}
			if op.Kind == opSetCell && op.Col+simterm.Measure(pers, op.Cell.G) > m.cols {
				op.Cell.G, op.Cell.W = "a", 0
			}
			if op.Kind == opPrint {
				used := 0
				text := ""
				g := uniseg.NewGraphemes(op.Text)
				for g.Next() {
					w := simterm.Measure(pers, g.Str())
					if op.Col+used+w > m.cols {
						break
					}
					text += g.Str()
					used += w
				}
				op.Text = text
				if text == "" {
					continue
				}
			}
		case opShowCursor:
			if op.Col >= m.cols || op.Row >= m.rows {
				op.Kind = opHideCursor
			}
		}
		switch op.Kind {
		case opSetCell:
			win.SetCell(op.Col, op.Row, vaxis.Cell{Character: vaxis.Character{Grapheme: op.Cell.G, Width: op.Cell.W}, Style: op.Cell.St})
			m.set(op.Col, op.Row, op.Cell)
		case opSetStyle:
			win.SetStyle(op.Col, op.Row, op.Cell.St)
			m.setStyle(op.Col, op.Row, op.Cell.St)
		case opClear:
			win.Clear()
			for r := 0; r < m.rows; r++ {
				for c := 0; c < m.cols; c++ {
					m.cells[r][c] = mcell{G: " ", W: 1}
				}
			}
		case opFill:
			win.Fill(vaxis.Cell{Character: vaxis.Character{Grapheme: op.Cell.G, Width: 1}, Style: op.Cell.St})
			for r := 0; r < m.rows; r++ {
				for c := 0; c < m.cols; c++ {
					m.cells[r][c] = mcell{G: op.Cell.G, W: 1, St: op.Cell.St}
				}
			}
		case opPrint:
			child := win.New(op.Col, op.Row, -1, 1)
			child.Print(vaxis.Segment{Text: op.Text, Style: op.Cell.St})
			col := op.Col
			g := uniseg.NewGraphemes(op.Text)
			for g.Next() {
				w := simterm.Measure(pers, g.Str())
				m.set(col, op.Row, mcell{G: g.Str(), W: w, St: op.Cell.St})
				col += w
			}
		case opShowCursor:
			win.ShowCursor(op.Col, op.Row, op.Cursor)
			m.curVisible, m.curCol, m.curRow, m.curStyle = true, op.Col, op.Row, op.Cursor
		case opHideCursor:
			vx.HideCursor()
			m.curVisible = false
		}
	}
}

func opString(op frameOp) string {
	switch op.Kind {
	case opSetCell:
		return fmt.Sprintf("SetCell(%d,%d,%q,w=%d,%s)", op.Col, op.Row, op.Cell.G, op.Cell.W, styleString(op.Cell.St))
	case opSetStyle:
		return fmt.Sprintf("SetStyle(%d,%d,%s)", op.Col, op.Row, styleString(op.Cell.St))
	case opClear:
		return "Clear()"
	case opFill:
		return fmt.Sprintf("Fill(%q,%s)", op.Cell.G, styleString(op.Cell.St))
	case opPrint:
		return fmt.Sprintf("Print@(%d,%d)(%q,%s)", op.Col, op.Row, op.Text, styleString(op.Cell.St))
	case opShowCursor:
		return fmt.Sprintf("ShowCursor(%d,%d,style=%d)", op.Col, op.Row, op.Cursor)
	case opHideCursor:
		return "HideCursor()"
	}
	return "?"
}

func colorString(c vaxis.Color) string {
	p := c.Params()
	switch len(p) {
	case 1:
		return fmt.Sprintf("idx%d", p[0])
	case 3:
		return fmt.Sprintf("#%02x%02x%02x", p[0], p[1], p[2])
	}
	return "-"
}

func styleString(st vaxis.Style) string {
	if st == (vaxis.Style{}) {
		return "plain"
	}
	s := fmt.Sprintf("fg=%s bg=%s attr=%#x", colorString(st.Foreground), colorString(st.Background), uint8(st.Attribute))
	if st.UnderlineStyle != 0 || st.UnderlineColor != 0 {
		s += fmt.Sprintf(" ul=%d/%s", st.UnderlineStyle, colorString(st.UnderlineColor))
	}
	if st.Hyperlink != "" || st.HyperlinkParams != "" {
		s += fmt.Sprintf(" link=%q;%q", st.HyperlinkParams, st.Hyperlink)
	}
	return s
}

func frameStrings(frames []frame) []any {
	var out []any
	for i, f := range frames {
		var ops []string
		for _, op := range f.Ops {
			ops = append(ops, opString(op))
		}
		end := "Render"
		switch f.End {
		case endRefresh:
			end = "Refresh"
			if f.Scramble {
				end = "scramble display; Refresh"
			}
		case endResize:
			end = fmt.Sprintf("Render; resize to %dx%d (scramble=%v)", f.NewRows, f.NewCols, f.Scramble)
		}
		out = append(out, map[string]any{"frame": i, "ops": ops, "end": end})
	}
	return out
}

// -------------------------------------------------------- expected display

// colorSet is the set of terminal colours acceptable for one application colour.
type expColor struct {
	kind simterm.ColorKind
	vals []uint32
}

func (e expColor) matches(c simterm.Color) bool {
	if c.Kind != e.kind {
		return false
	}
	if e.kind == simterm.ColDefault {
		return true
	}
	for _, v := range e.vals {
		if v == c.V {
			return true
		}
	}
	return false
}

func (e expColor) String() string {
	switch e.kind {
	case simterm.ColDefault:
		return "default"
	case simterm.ColIndex:
		return fmt.Sprintf("index%v", e.vals)
	}
	return fmt.Sprintf("rgb%06x", e.vals)
}

var xtermPalette = simterm.XtermPalette()

// nearestPalette returns every entry of 16..255 at minimal weighted distance
// (0.30, 0.59, 0.11 on R, G, B, squared), computed in signed integer
// arithmetic from the independently generated palette.
func nearestPalette(r, g, b int) []uint32 {
	best := int64(-1)
	var out []uint32
	for i := 16; i < 256; i++ {
		v := xtermPalette[i]
		dr, dg, db := int64(int(v>>16&255)-r), int64(int(v>>8&255)-g), int64(int(v&255)-b)
		d := 900*dr*dr + 3481*dg*dg + 121*db*db
		switch {
		case best < 0 || d < best:
			best = d
			out = []uint32{uint32(i)}
		case d == best:
			out = append(out, uint32(i))
		}
	}
	return out
}

func expectColor(c vaxis.Color, rgbOK bool) expColor {
	p := c.Params()
	switch len(p) {
	case 1:
		return expColor{kind: simterm.ColIndex, vals: []uint32{uint32(p[0])}}
	case 3:
		if rgbOK {
			return expColor{kind: simterm.ColRGB, vals: []uint32{uint32(p[0])<<16 | uint32(p[1])<<8 | uint32(p[2])}}
		}
		return expColor{kind: simterm.ColIndex, vals: nearestPalette(int(p[0]), int(p[1]), int(p[2]))}
	}
	return expColor{kind: simterm.ColDefault}
}

type expStyle struct {
	fg, bg, ul expColor
	ulStyle    uint8
	attr       uint8
	uri        string
	params     string
}

func expectStyle(st vaxis.Style, caps simterm.Caps) expStyle {
	e := expStyle{fg: expectColor(st.Foreground, caps.RGB), bg: expectColor(st.Background, caps.RGB)}
	if caps.StyledUnderline() {
		e.ul = expectColor(st.UnderlineColor, caps.RGB)
		e.ulStyle = uint8(st.UnderlineStyle)
	} else {
		e.ul = expColor{kind: simterm.ColDefault}
		if st.UnderlineStyle != vaxis.UnderlineOff {
			e.ulStyle = 1
		}
	}
	pairs := []struct {
		v vaxis.AttributeMask
		s uint8
	}{{vaxis.AttrBold, simterm.ABold}, {vaxis.AttrDim, simterm.ADim}, {vaxis.AttrItalic, simterm.AItalic}, {vaxis.AttrBlink, simterm.ABlink},
		{vaxis.AttrReverse, simterm.AReverse}, {vaxis.AttrInvisible, simterm.AInvisible}, {vaxis.AttrStrikethrough, simterm.AStrike}}
	for _, p := range pairs {
		if st.Attribute&p.v != 0 {
			e.attr |= p.s
		}
	}
	if st.Hyperlink != "" {
		e.uri, e.params = st.Hyperlink, st.HyperlinkParams
	}
	return e
}

func (e expStyle) diff(s simterm.Style) string {
	switch {
	case !e.fg.matches(s.Fg):
		return fmt.Sprintf("foreground %v, want %v", s.Fg, e.fg)
	case !e.bg.matches(s.Bg):
		return fmt.Sprintf("background %v, want %v", s.Bg, e.bg)
	case !e.ul.matches(s.Ul):
		return fmt.Sprintf("underline colour %v, want %v", s.Ul, e.ul)
	case e.ulStyle != s.UlStyle:
		return fmt.Sprintf("underline style %d, want %d", s.UlStyle, e.ulStyle)
	case e.attr != s.Attr:
		return fmt.Sprintf("attributes %#x, want %#x (bold=1 dim=2 italic=4 blink=8 reverse=16 invisible=32 strike=64)", s.Attr, e.attr)
	case e.uri != s.LinkURI || e.params != s.LinkParams:
		return fmt.Sprintf("hyperlink %q;%q, want %q;%q", s.LinkParams, s.LinkURI, e.params, e.uri)
	}
	return ""
}

type expCell struct {
	g    string
	w    int  // columns of the glyph starting here (>=1)
	cont bool // covered by a glyph that starts further left
	st   expStyle
}

func blankEq(a, b string) bool {
	if a == "" {
		a = " "
	}
	if b == "" {
		b = " "
	}
	return a == b
}

// expectedDisplay derives, from the application's record alone, what a
// terminal with the given capabilities and personality must show.
func expectedDisplay(m *appModel, caps simterm.Caps, pers simterm.Personality) [][]expCell {
	out := make([][]expCell, m.rows)
	for r := 0; r < m.rows; r++ {
		row := make([]expCell, m.cols)
		for c := 0; c < m.cols; {
			mc := m.cells[r][c]
			st := expectStyle(mc.St, caps)
			var pieces []simterm.Piece
			w := mc.W
			auto := simterm.Measure(pers, mc.G)
			if w == 0 {
				w = auto
			}
			switch {
			case w <= 0:
				pieces = []simterm.Piece{{Text: " ", W: 1}}
			case caps.ExplicitWidth && w > 1:
				pieces = []simterm.Piece{{Text: mc.G, W: w}}
			default:
				pieces = simterm.Layout(pers, mc.G)
			}
			// merge zero-width pieces into their predecessor
			var merged []simterm.Piece
			for _, p := range pieces {
				if p.W == 0 && len(merged) > 0 {
					merged[len(merged)-1].Text += p.Text
					continue
				}
				if p.W == 0 {
					continue
				}
				merged = append(merged, p)
			}
			if len(merged) == 0 {
				merged = []simterm.Piece{{Text: " ", W: 1}}
			}
			col := c
			for _, p := range merged {
				if col >= m.cols {
					break
				}
				row[col] = expCell{g: p.Text, w: p.W, st: st}
				for k := 1; k < p.W && col+k < m.cols; k++ {
					row[col+k] = expCell{cont: true, st: st}
				}
				col += p.W
			}
			if col == c {
				col = c + 1
			}
			c = col
		}
		out[r] = row
	}
	return out
}

// compareDisplay returns "" if the terminal shows exactly the expected display.
func compareDisplay(t *simterm.Term, exp [][]expCell) string {
	if t.Rows != len(exp) || (len(exp) > 0 && t.Cols != len(exp[0])) {
		return fmt.Sprintf("terminal is %dx%d, application drew for %dx%d", t.Rows, t.Cols, len(exp), len(exp[0]))
	}
	return compareGrid(t.Cell, exp)
}

// compareGrid compares any grid of terminal cells with the expected display.
func compareGrid(cellAt func(r, c int) simterm.Cell, exp [][]expCell) string {
	for r := range exp {
		for c := range exp[r] {
			e := exp[r][c]
			tc := cellAt(r, c)
			if tc.Unspec {
				return fmt.Sprintf("cell (row %d, col %d): what the terminal shows here is terminal-specific (half of an overwritten wide glyph, or a glyph that did not fit); expected %q", r, c, e.g)
			}
			if e.cont {
				if tc.W != 0 {
					return fmt.Sprintf("cell (row %d, col %d) should be covered by the wide glyph to its left, terminal shows %q (w=%d)", r, c, tc.G, tc.W)
				}
				continue
			}
			if tc.W == 0 {
				return fmt.Sprintf("cell (row %d, col %d) should show %q but is covered by a wide glyph to its left", r, c, e.g)
			}
			if !blankEq(e.g, tc.G) {
				return fmt.Sprintf("cell (row %d, col %d) shows %q, application set %q", r, c, tc.G, e.g)
			}
			if e.w != tc.W {
				return fmt.Sprintf("cell (row %d, col %d) %q has width %d, expected %d", r, c, tc.G, tc.W, e.w)
			}
			if d := e.st.diff(tc.Style); d != "" {
				return fmt.Sprintf("cell (row %d, col %d) %q: %s", r, c, tc.G, d)
			}
		}
	}
	return ""
}

// diffNoLink is diff without the hyperlink comparison.
func (e expStyle) diffNoLink(s simterm.Style) string {
	s.LinkURI, s.LinkParams = e.uri, e.params
	return e.diff(s)
}
