package worlds

import (
	"bufio"
	"encoding/json"
	"flag"
	"fmt"
	"git.sr.ht/~rockorager/vaxis/simrt"
	"os"
	"runtime"
	"runtime/pprof"
	"strings"
	"sync"
	"testing"
	"time"
	_ "unsafe"
)

var (
	fProp   = flag.String("sim.prop", "", "property id")
	fTier   = flag.String("sim.tier", "quick", "tier")
	fSeed   = flag.Uint64("sim.seed", 1, "VERIF_SEED")
	fFrom   = flag.Int("sim.from", 0, "first run index")
	fTo     = flag.Int("sim.to", 0, "one past the last run index")
	fStride = flag.Int("sim.stride", 1, "index stride")
	fOut    = flag.String("sim.out", "", "output file (JSON lines)")
	fReplay = flag.String("sim.replay", "", "replay file")
	fBudget = flag.Duration("sim.budget", 0, "wall-clock budget; stop starting new runs after it")
	fMaxMem = flag.Int("sim.maxmem", 0, "MiB of heap after which the worker hands over to a fresh process (runs that end with goroutines blocked for ever in channel operations cannot be freed)")
	fOpts   = flag.String("sim.opts", "", "k=v,k=v world options")
	fLog    = flag.Bool("sim.log", false, "record the schedule log")
	fKeep   = flag.Int("sim.keep", 3, "number of sample descriptions to keep per worker")
	fShrink = flag.String("sim.shrink", "", "replay file to minimise")
	fShrOut = flag.String("sim.shrinkout", "", "where to write the minimised replay file")
	fShrBud = flag.Duration("sim.shrinkbudget", 20*time.Second, "minimisation budget")
	fWall   = flag.Duration("sim.runwall", 20*time.Second, "wall-clock time without a single scheduler step after which a run counts as a CPU loop (watchdog)")
)

// HangRecord is written next to the output when the watchdog fires.
type HangRecord struct {
	Hang  bool    `json:"hang"`
	Spec  RunSpec `json:"spec"`
	Desc  any     `json:"desc"`
	Site  string  `json:"site"`
	Stack string  `json:"stack"`
	WallS float64 `json:"wall_s"`
}

var watchdogOnce sync.Once

// startWatchdog runs outside every bubble on the real clock. A run that makes
// no progress for longer than -sim.runwall is a CPU loop in the code under
// test (hooks are never reached, so the simulator cannot preempt it): the
// worker records it and exits with status 3; the driver restarts after it.
func startWatchdog(out string) {
	watchdogOnce.Do(func() {
		begin := time.Now()
		wallNow = func() time.Time { return begin.Add(time.Duration(nanotime() - nano0)) }
		go func() {
			lastProgress := int64(-1)
			var lastRun *CurrentRun
			lastChange := wallNow()
			for {
				time.Sleep(250 * time.Millisecond)
				cur := Current.Load()
				if cur == nil || cur.Start.IsZero() {
					continue
				}
				// progress = a scheduler step was taken or another run began
				if pr := simrt.Progress.Load(); pr != lastProgress || cur != lastRun {
					lastProgress, lastRun, lastChange = pr, cur, wallNow()
					continue
				}
				el := wallNow().Sub(lastChange)
				if el < *fWall {
					continue
				}
				buf := make([]byte, 1<<20)
				n := runtime.Stack(buf, true)
				site, stack := hangSite(string(buf[:n]))
				spec := cur.Spec
				spec.Replay = true
				spec.W = append([]uint32(nil), cur.W.Out...)
				spec.S = append([]uint32(nil), cur.S.Out...)
				rec := HangRecord{Hang: true, Spec: spec, Desc: cur.Desc, Site: site, Stack: stack, WallS: el.Seconds()}
				b, _ := json.Marshal(rec)
				os.WriteFile(out+".hang", b, 0o644)
				os.Exit(3)
			}
		}()
	})
}

// hangSite finds the goroutine that is burning CPU inside the repository's code.
func hangSite(all string) (string, string) {
	for _, g := range strings.Split(all, "\n\n") {
		first := g
		if i := strings.IndexByte(g, '\n'); i > 0 {
			first = g[:i]
		}
		if !strings.Contains(first, "[running") && !strings.Contains(first, "[runnable") {
			continue
		}
		if !strings.Contains(g, "rockorager/vaxis") {
			continue
		}
		for _, l := range strings.Split(g, "\n") {
			if strings.HasPrefix(l, "git.sr.ht/~rockorager/vaxis") && !strings.Contains(l, "/simrt.") {
				fn := l
				if k := strings.LastIndex(fn, "("); k > 0 {
					fn = fn[:k]
				}
				lines := strings.Split(g, "\n")
				if len(lines) > 24 {
					lines = lines[:24]
				}
				return strings.TrimPrefix(fn, "git.sr.ht/~rockorager/vaxis"), strings.Join(lines, "\n")
			}
		}
	}
	return "unknown", ""
}

// TestWorker executes a range of run indices and writes one JSON line per run.
func TestWorker(t *testing.T) {
	if *fShrink != "" {
		shrinkMain(t)
		return
	}
	if *fProp == "" && *fReplay == "" {
		t.Skip("no -sim.prop")
	}
	if *fReplay != "" {
		replayMain(t)
		return
	}
	out := os.Stdout
	if *fOut != "" {
		f, err := os.Create(*fOut)
		if err != nil {
			t.Fatal(err)
		}
		defer f.Close()
		out = f
	}
	bw := bufio.NewWriterSize(out, 1<<20)
	defer bw.Flush()
	enc := json.NewEncoder(bw)
	opts := parseOpts(*fOpts)
	startWatchdog(*fOut)
	Calibrate(t)
	start := time.Now()
	kept := 0
	n := 0
	for i := *fFrom; i < *fTo; i += *fStride {
		if *fBudget > 0 && time.Since(start) > *fBudget {
			break
		}
		if *fMaxMem > 0 && n > 0 && n%256 == 0 {
			var ms runtime.MemStats
			runtime.ReadMemStats(&ms)
			if ms.HeapInuse+ms.StackInuse > uint64(*fMaxMem)<<20 {
				// hand over: the driver starts a fresh process at index i
				os.WriteFile(*fOut+".next", []byte(fmt.Sprintf("%d %d", i, int64(time.Since(start)))), 0o644)
				break
			}
		}
		spec := RunSpec{Prop: *fProp, Tier: *fTier, Seed: *fSeed, Index: i, Opts: opts, Log: *fLog}
		res := Execute(t, spec)
		n++
		if len(res.Violations) == 0 && res.HarnessError == "" {
			res.W, res.S = nil, nil
			if kept >= *fKeep {
				res.Desc = nil
			} else if res.Nontrivial {
				kept++
			} else {
				res.Desc = nil
			}
		}
		if err := enc.Encode(&res); err != nil {
			t.Fatal(err)
		}
	}
	fmt.Fprintf(bw, "{\"done\":true,\"runs\":%d,\"wall_s\":%.3f}\n", n, time.Since(start).Seconds())
	if hp := os.Getenv("SIM_HEAP"); hp != "" {
		runtime.GC()
		f, _ := os.Create(hp)
		pprof.WriteHeapProfile(f)
		f.Close()
		fmt.Fprintf(os.Stderr, "goroutines at end: %d\n", runtime.NumGoroutine())
	}
}

func parseOpts(s string) map[string]string {
	m := map[string]string{}
	if s == "" {
		return m
	}
	cur := ""
	for _, part := range splitComma(s) {
		cur = part
		for i := 0; i < len(cur); i++ {
			if cur[i] == '=' {
				m[cur[:i]] = cur[i+1:]
				break
			}
		}
	}
	return m
}

func splitComma(s string) []string {
	var out []string
	last := 0
	for i := 0; i <= len(s); i++ {
		if i == len(s) || s[i] == ',' {
			out = append(out, s[last:i])
			last = i + 1
		}
	}
	return out
}

// ReplayFile is the on-disk form of a failing run.
type ReplayFile struct {
	Spec      RunSpec   `json:"spec"`
	Class     string    `json:"class"`
	Violation Violation `json:"violation"`
	Trace     string    `json:"trace"`
	Desc      any       `json:"desc,omitempty"`
	Log       []string  `json:"log,omitempty"`
	Note      string    `json:"note,omitempty"`
}

func replayMain(t *testing.T) {
	b, err := os.ReadFile(*fReplay)
	if err != nil {
		t.Fatal(err)
	}
	var rf ReplayFile
	if err := json.Unmarshal(b, &rf); err != nil {
		t.Fatal(err)
	}
	startWatchdog(*fReplay)
	Calibrate(t)
	spec := rf.Spec
	spec.Replay = true
	spec.Log = *fLog
	res := Execute(t, spec)
	out := map[string]any{"result": res, "expected_class": rf.Class, "expected_trace": rf.Trace}
	same := false
	for _, v := range res.Violations {
		if v.Class() == rf.Class {
			same = true
		}
	}
	out["reproduced"] = same
	out["trace_equal"] = res.Trace == rf.Trace
	enc := json.NewEncoder(os.Stdout)
	enc.SetIndent("", " ")
	enc.Encode(out)
}

func shrinkMain(t *testing.T) {
	b, err := os.ReadFile(*fShrink)
	if err != nil {
		t.Fatal(err)
	}
	var rf ReplayFile
	if err := json.Unmarshal(b, &rf); err != nil {
		t.Fatal(err)
	}
	Calibrate(t)
	before := len(rf.Spec.W) + len(rf.Spec.S)
	spec, res, tries := Shrink(t, rf.Spec, rf.Class, *fShrBud)
	// one more execution with logging for the human-readable trace
	spec.Log = true
	logged := Execute(t, spec)
	spec.Log = false
	out := ReplayFile{Spec: spec, Class: rf.Class, Trace: res.Trace, Desc: res.Desc}
	for _, v := range res.Violations {
		if v.Class() == rf.Class {
			out.Violation = v
		}
	}
	if logged.Trace == res.Trace {
		lg := logged.Log
		if len(lg) > 400 {
			lg = append(lg[:200:200], lg[len(lg)-200:]...)
		}
		out.Log = lg
	}
	out.Note = fmt.Sprintf("minimised from %d to %d tape entries in %d executions", before, len(spec.W)+len(spec.S), tries)
	ob, _ := json.MarshalIndent(out, "", " ")
	if err := os.WriteFile(*fShrOut, ob, 0o644); err != nil {
		t.Fatal(err)
	}
}

//go:linkname nanotime runtime.nanotime
func nanotime() int64

var nano0 = nanotime()
