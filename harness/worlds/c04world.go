package worlds

import (
	"fmt"
	"syscall"
	"time"

	"git.sr.ht/~rockorager/vaxis"
	"git.sr.ht/~rockorager/vaxis/simrt"

	"simharness/simterm"
)

// exitWorld runs the C04 workload: sessions with frames, cursor and pointer
// shape changes and Suspend/Resume cycles, ended through one of the exit
// paths at a tape-chosen (thorough: swept) point, with the terminal's mode
// table compared before start-up and after the exit.
type exitWorld struct {
	stall int // 1/stall of scheduling steps freeze the chosen application task
	// closeSuspended: the session ends with Close right after its last
	// Suspend, without a Resume (exit kind 0 only)
	closeSuspended bool
	s    *simrt.Sched
	res  *RunResult
	env  *sessionEnv
	caps simterm.Caps
	bits int
	rows int
	cols int

	plan      []exitStep
	exitKind  int // 0 Close from main, 1 SIGTERM, 2 panic in the input goroutine
	sigStep   int
	panicAt   int
	userIn    bool
	opts      vaxis.Options
	initStyle int
	initApp   string
	initKitty []int
	initFlags int
	initSet   []int // DEC modes already set when the application starts

	before         simterm.ModeTable
	afterNew       simterm.ModeTable
	vx             *vaxis.Vaxis
	done           bool
	sigSent        bool
	sigAccepted    int
	closedSelf     bool
	exitSeen       time.Duration
	suspends       int
	newRet         bool
	mainClosed     bool
	panicked       bool
	startedAtEnter bool
	mainBusy       string // what the main task is inside of ("" = polling / idle)
	overlap        string // the library's own exit path ran concurrently with this main-task call
}

// enter/leave bracket the main task's calls into the library so that a
// self-initiated shutdown (signal, panic) overlapping them can be told apart.
func (w *exitWorld) enter(what string) {
	w.mainBusy = what
	w.startedAtEnter = w.selfExitStarted()
	if w.startedAtEnter && !w.env.con.closed && w.overlap == "" {
		// the library is in the middle of shutting itself down
		w.overlap = what
	}
}

func (w *exitWorld) leave() {
	if !w.startedAtEnter && w.selfExitStarted() && w.overlap == "" {
		// the self-initiated shutdown began while this call was running
		w.overlap = w.mainBusy
	}
	w.mainBusy = ""
}

// selfExitStarted: the library has begun shutting itself down (a kill signal
// was accepted, or the armed panic fired and the recovery handler is running).
func (w *exitWorld) selfExitStarted() bool {
	return w.sigAccepted > 0 || w.panicked || w.s.FailFired("vaxis.handleSequence")
}

func (w *exitWorld) violate(oracle, site, format string, args ...any) {
	if w.panicked && !w.newRet {
		oracle += "+during-New"
	} else if w.overlap != "" {
		oracle += "+main-in-" + w.overlap
	} else if w.mainBusy != "" && !w.startedAtEnter && w.selfExitStarted() {
		// judged before leave(): the self-initiated shutdown began while
		// the main task's current call was running (leave's own rule)
		oracle += "+main-in-" + w.mainBusy
	}
	w.res.Violate(oracle, site, format, args...)
}

type exitStep struct {
	Kind  int // 0 frame, 1 suspend/resume, 2 wait
	Ops   []frameOp
	Shape vaxis.MouseShape
	Wait  int64
}

func init() {
	Register("C04", func() World { return &exitWorld{} })
}

func (w *exitWorld) SimName() string { return "exitWorld" }

func (w *exitWorld) Describe() any {
	var plan []string
	for _, st := range w.plan {
		switch st.Kind {
		case 0:
			s := "frame:"
			for _, op := range st.Ops {
				s += " " + opString(op)
			}
			if st.Shape != "" {
				s += " SetMouseShape(" + string(st.Shape) + ")"
			}
			plan = append(plan, s)
		case 1:
			plan = append(plan, "Suspend; Resume")
		case 2:
			plan = append(plan, fmt.Sprintf("idle %dus", st.Wait))
		}
	}
	exit := []string{"Close() from the main task", fmt.Sprintf("SIGTERM before scheduler step %d", w.sigStep), fmt.Sprintf("panic at the %d-th handleSequence", w.panicAt)}[w.exitKind]
	return map[string]any{"size": fmt.Sprintf("%dx%d", w.rows, w.cols), "caps": capsString(w.caps), "plan": plan, "exit": exit,
		"initial": fmt.Sprintf("cursor-style=%d app-id=%q kitty-stack=%v flags=%d modes-set=%v", w.initStyle, w.initApp, w.initKitty, w.initFlags, w.initSet),
		"options": fmt.Sprintf("%+v", w.opts), "user_input": w.userIn, "stall_1_in": w.stall, "close_while_suspended": w.closeSuspended && w.exitKind == 0 && w.lastSuspend() >= 0}
}

func (w *exitWorld) Build(t *simrt.Tape, spec RunSpec) {
	base := optInt(spec.Opts, "base", 0)
	idx := spec.Index - base
	if n := optInt(spec.Opts, "sweep", 0); n > 0 {
		idx /= n
	}
	w.bits = idx % (1 << numGating)
	if t.Draw(4) == 0 {
		w.bits = t.Draw(1 << numGating)
	}
	w.caps = capsFromBits(w.bits, t)
	w.rows, w.cols = 2+t.Draw(4), 2+t.Draw(8)
	// settings whose prior value the library can learn, or that stack
	if w.caps.CursorStyleRep {
		w.initStyle = t.Draw(7)
	}
	if w.caps.AppID {
		w.initApp = []string{"", "shell", "org.example.term"}[t.Draw(3)]
	}
	if w.caps.KittyKbd {
		for k := t.Draw(3); k > 0; k-- {
			w.initKitty = append(w.initKitty, t.Draw(4))
		}
		w.initFlags = t.Draw(4)
	}
	if t.Draw(4) == 0 && spec.Opts["noinitset"] == "" {
		for _, m := range []int{2027, 2031} {
			if t.Draw(2) == 0 {
				w.initSet = append(w.initSet, m)
			}
		}
	}
	if t.Draw(6) == 0 {
		w.opts.DisableMouse = true
	}
	if t.Draw(6) == 0 {
		w.opts.DisableKittyKeyboard = true
	}
	if t.Draw(6) == 0 {
		w.opts.CSIuBitMask = vaxis.CSIuBitMask(1 + t.Draw(31))
	}
	pers := personalityFor(w.caps)
	cfg := frameGenCfg{rows: w.rows, cols: w.cols, pers: pers, explicitW: w.caps.ExplicitWidth, maxFrames: 1, maxOps: 6}
	shapes := []vaxis.MouseShape{"", "", vaxis.MouseShapeDefault, vaxis.MouseShapeClickable, vaxis.MouseShapeTextInput, vaxis.MouseShapeBusy}
	n := t.Draw(7)
	for i := 0; i < n; i++ {
		switch k := t.Draw(8); {
		case k < 5:
			fr := genFrames(t, cfg)[0]
			w.plan = append(w.plan, exitStep{Kind: 0, Ops: fr.Ops, Shape: shapes[t.Draw(len(shapes))]})
		case k < 7 && w.suspends < 3:
			w.plan = append(w.plan, exitStep{Kind: 1})
			w.suspends++
		default:
			w.plan = append(w.plan, exitStep{Kind: 2, Wait: drawGrid(t, 100_000)})
		}
	}
	w.userIn = t.Draw(2) == 0
	w.exitKind = t.Draw(3)
	w.sigStep = 1 + t.Draw(1500)
	if t.Draw(3) == 0 {
		w.sigStep = 1 + t.Draw(300)
	}
	w.panicAt = 1 + t.Draw(45)
	// stall fault: the application's threads may be frozen between two
	// library steps (inside Close, Suspend, Resume, Render) for up to 70 ms
	w.stall = []int{0, 0, 400, 80}[t.Draw(4)]
	w.closeSuspended = t.Draw(4) == 0
	if v, ok := spec.Opts["sweepk"]; ok && v != "" {
		// the exit point is swept along the session
		k := optInt(spec.Opts, "sweepk", 0)
		stride := optInt(spec.Opts, "stride", 8)
		if w.exitKind == 0 {
			w.exitKind = 1
		}
		w.sigStep = 1 + k*stride + t.Draw(stride)
		w.panicAt = 1 + k%48
	}
}

func (w *exitWorld) Start(s *simrt.Sched, res *RunResult) {
	w.s, w.res = s, res
	s.MaxSteps = 150000
	s.StallOneIn, s.StallMax = w.stall, 6
	s.StallOK = func(t *simrt.Task) bool { return t.Name != "terminal" && t.Name != "wire" }
	w.env = newSessionEnv(s, res, w.rows, w.cols, w.caps)
	t := w.env.term
	t.CursorStyle = w.initStyle
	t.AppIDValue = w.initApp
	t.KittyStack = append([]int(nil), w.initKitty...)
	t.KittyFlags = w.initFlags
	for _, m := range w.initSet {
		if t.Caps.UnicodeCore && m == 2027 || t.Caps.ColorScheme && m == 2031 {
			t.Modes[m] = true
		}
	}
	t.R, t.C = s.Tape.Draw(w.rows), s.Tape.Draw(w.cols)
	w.before = t.ModeTable()
	w.env.replyDelay = promptReplies(s)
	w.env.chunkMode = s.Tape.Draw(4)
	w.env.start()
	switch w.exitKind {
	case 1:
		s.AtStep(w.sigStep, func() {
			w.sigSent = true
			w.sigAccepted = s.Deliver(syscall.SIGTERM)
			if w.sigAccepted > 0 && w.mainBusy != "" {
				w.overlap = w.mainBusy
			}
			if w.sigAccepted > 0 {
				res.Fault("sigterm-delivered")
			} else {
				res.Fault("sigterm-before-handlers")
			}
		})
	case 2:
		s.Arm("vaxis.handleSequence", w.panicAt)
	}
	s.OnTaskPanic = func(t *simrt.Task) {
		// an unrecovered panic in a goroutine ends the process
		if _, ok := t.PanicVal.(simrt.InjectedPanic); ok {
			res.Fault("injected-panic")
		}
		w.panicked = true
		if w.mainBusy != "" && w.overlap == "" {
			w.overlap = w.mainBusy
		}
		w.exitSeen = s.Now()
		s.Finish()
	}
	s.Go("app", w.app)
}

func (w *exitWorld) lastSuspend() int {
	k := -1
	for i, st := range w.plan {
		if st.Kind == 1 {
			k = i
		}
	}
	return k
}

func (w *exitWorld) drain() (quit bool) {
	for {
		var ev vaxis.Event
		var ok bool
		k := simrt.Select("app.drain", true, simrt.CaseRecv(w.vx.Events(), &ev, &ok))
		if k < 0 {
			return
		}
		if !ok {
			return true
		}
		switch e := ev.(type) {
		case vaxis.QuitEvent:
			quit = true
		case vaxis.SyncFunc:
			e()
		}
	}
}

func (w *exitWorld) app() {
	vx, err := newVaxis(w.env, w.opts)
	if err != nil {
		w.res.Violate("new-failed", "vaxis.New", "%v", err)
		w.env.shutdown()
		w.s.Finish()
		return
	}
	w.vx = vx
	w.newRet = true
	w.env.quiesce()
	w.afterNew = w.env.term.ModeTable()
	if w.userIn {
		w.s.Go("user", w.user)
	}
	m := newAppModel(w.rows, w.cols)
	pers := personalityFor(w.caps)
	quit := false
plan:
	for si, st := range w.plan {
		if quit = w.drain(); quit {
			break
		}
		switch st.Kind {
		case 0:
			applyOps(vx, m, st.Ops, pers)
			if st.Shape != "" {
				vx.SetMouseShape(st.Shape)
			}
			w.enter("Render")
			vx.Render()
			w.leave()
		case 1:
			w.enter("Suspend-Resume")
			vx.Suspend()
			w.checkRestored("after Suspend returned")
			if len(w.res.Violations) > 0 {
				w.done = true
				w.env.shutdown()
				w.s.Finish()
				return
			}
			if w.closeSuspended && w.exitKind == 0 && si == w.lastSuspend() {
				// the application exits while suspended: Close without Resume
				w.leave()
				w.res.Fault("close-while-suspended")
				break plan
			}
			vx.Resume()
			w.leave()
			w.env.quiesce()
			w.checkResumed()
			w.res.Fault("suspend-resume")
		case 2:
			simrt.Sleep(time.Duration(st.Wait) * time.Microsecond)
		}
	}
	if !quit {
		quit = w.drain()
	}
	if quit || w.exitKind != 0 {
		// the library is shutting itself down (or will, or never gets the
		// chance): behave like an application that exits on QuitEvent
		if !quit {
			// wait a little for a pending signal / panic
			for i := 0; i < 40 && !quit && !w.panicked; i++ {
				simrt.Sleep(50 * time.Millisecond)
				quit = w.drain()
			}
		}
	}
	if quit {
		w.exitSeen = w.s.Now()
		// Close was run by the input goroutine (signal path): wait until it
		// has finished there (the console gets closed at its very end)
		simrt.WaitUntil(w.env.con, "app.wait-self-close", func() bool { return w.env.con.closed || w.s.Now() > w.exitSeen+60*time.Second })
		w.closedSelf = true
	}
	// main-task Close: the only exit for kind 0, a harmless second Close otherwise
	w.env.quiesce()
	pre := w.env.term.ModeTable()
	wrote := w.env.con.written
	w.enter("Close")
	vx.Close()
	w.leave()
	w.mainClosed = true
	w.checkRestored("after Close returned")
	if w.closedSelf {
		w.env.quiesce()
		if post := w.env.term.ModeTable(); post != pre {
			w.violate("second-close", "vaxis.Close", "a second Close changed the terminal: %+v -> %+v", pre, post)
		}
		_ = wrote
	}
	// and once more
	pre = w.env.term.ModeTable()
	vx.Close()
	w.env.quiesce()
	if post := w.env.term.ModeTable(); post != pre {
		w.violate("second-close", "vaxis.Close", "a second Close changed the terminal: %+v -> %+v", pre, post)
	}
	w.done = true
	w.env.shutdown()
	w.s.Finish()
}

func (w *exitWorld) user() {
	keys := []string{"a", "\x1b[A", "\r", "x", "\x1b[<0;1;1M", "\x1b[<0;1;1m", "\x1b[I", "bc", "\x1b[1;5C", "q"}
	for i := 0; i < 30 && !w.done; i++ {
		simrt.Sleep(time.Duration(Grid[w.s.Tape.Draw(10)]) * time.Microsecond)
		if w.done {
			return
		}
		w.env.send([]byte(keys[w.s.Tape.Draw(len(keys))]), 0)
		w.res.Fault("input-during-session")
	}
}

// expectedAfterExit is the mode table the terminal must show once an exit
// path has completed: everything as before start-up, cursor visible, primary
// screen.
func (w *exitWorld) expectedAfterExit() simterm.ModeTable {
	e := w.before
	e.CursorVisible = true
	e.OnAlt = false
	return e
}

func (w *exitWorld) checkRestored(at string) {
	w.env.quiesce()
	got := w.env.term.ModeTable()
	want := w.expectedAfterExit()
	if got != want {
		oracle := w.classifyNotRestored(want)
		w.violate(oracle, "terminal-state", "%s the terminal is not back at its prior state:\n%s\nterminal: %s\ncase: %s", at, diffModes(want, got), capsString(w.caps), toJSON(w.Describe()))
	}
}

// classifyNotRestored tells apart the listed circumstance "a mode that was
// already set before start-up was reset" from every other difference.
func (w *exitWorld) classifyNotRestored(want simterm.ModeTable) string {
	oracle := "not-restored"
	if len(w.initSet) > 0 {
		t := w.env.term
		saved := map[int]bool{}
		for _, m := range w.initSet {
			saved[m] = t.Modes[m]
			if t.Caps.UnicodeCore && m == 2027 || t.Caps.ColorScheme && m == 2031 {
				t.Modes[m] = true
			}
		}
		if t.ModeTable() == want {
			oracle = "not-restored+mode-set-before-startup"
		}
		for m, v := range saved {
			t.Modes[m] = v
		}
	}
	return oracle
}

func (w *exitWorld) checkResumed() {
	if w.selfExitStarted() {
		// the library has meanwhile begun to shut itself down: what Resume
		// established is being undone, there is nothing stable to compare
		return
	}
	got := w.env.term.ModeTable()
	want := w.afterNew
	// cursor visibility/shape and pointer shape follow the frames, the modes must match
	got.CursorVisible, got.CursorStyle, got.PointerShape, got.Pen = want.CursorVisible, want.CursorStyle, want.PointerShape, want.Pen
	if got != want {
		w.violate("resume-differs", "vaxis.Resume", "Resume did not re-establish what start-up established:\n%s\nterminal: %s", diffModes(want, got), capsString(w.caps))
	}
}

func diffModes(want, got simterm.ModeTable) string {
	s := ""
	add := func(name string, a, b any) {
		if fmt.Sprint(a) != fmt.Sprint(b) {
			s += fmt.Sprintf("  %s: is %v, must be %v\n", name, b, a)
		}
	}
	add("DEC private modes set", want.Modes, got.Modes)
	add("keypad application mode", want.KeypadApp, got.KeypadApp)
	add("kitty keyboard stack", want.KittyStack, got.KittyStack)
	add("kitty keyboard flags", want.KittyFlags, got.KittyFlags)
	add("cursor visible", want.CursorVisible, got.CursorVisible)
	add("cursor style", want.CursorStyle, got.CursorStyle)
	add("pointer shape", want.PointerShape, got.PointerShape)
	add("application id", want.AppID, got.AppID)
	add("alternate screen active", want.OnAlt, got.OnAlt)
	add("pen (SGR / hyperlink)", want.Pen, got.Pen)
	add("insert mode", want.InsertMode, got.InsertMode)
	add("scroll region", want.ScrollRegion, got.ScrollRegion)
	add("synchronized update pending", want.SyncDepth, got.SyncDepth)
	return s
}

func (w *exitWorld) Finish(s *simrt.Sched, res *RunResult) {
	res.FaultN("task-stalled", s.Stalls)
	res.Nontrivial = len(w.plan) > 0 || w.exitKind != 0
	res.EndState = fmt.Sprintf("%s exit=%d self=%v panicked=%v bits=%d", s.End, w.exitKind, w.closedSelf, w.panicked, w.bits)
	for _, t := range s.Panics() {
		if _, ok := t.PanicVal.(simrt.InjectedPanic); ok {
			continue
		}
		// a panic other than the injected one is C03's business unless it
		// happened on an exit path; report it as a diagnostic
		res.Diag = append(res.Diag, "task panic: "+firstLine(t.PanicText))
	}
	if w.panicked {
		// the process died with the re-panic: by then the recover handler's
		// Close must have restored the terminal
		got := w.env.term.ModeTable()
		// the terminal may still have unread bytes: feed them
		for _, ch := range w.env.toTerm {
			w.env.term.Feed(ch)
		}
		w.env.toTerm = nil
		got = w.env.term.ModeTable()
		if want := w.expectedAfterExit(); got != want {
			w.violate(w.classifyNotRestored(want), "terminal-state", "the input goroutine panicked (k=%d) and the process died with the terminal not restored:\n%s\nterminal: %s\ncase: %s", w.panicAt, diffModes(want, got), capsString(w.caps), toJSON(w.Describe()))
		}
		return
	}
	if s.End == simrt.EndDeadlock || (s.End != simrt.EndFinished) || !w.done {
		w.violate("exit-hangs", "vaxis.Close", "the exit path did not complete (%s): %v\ncase: %s", s.End, s.Picture(), toJSON(w.Describe()))
	}
}

func firstLine(s string) string {
	for i := 0; i < len(s); i++ {
		if s[i] == '\n' {
			return s[:i]
		}
	}
	return s
}
