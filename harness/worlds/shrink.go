package worlds

import (
	"testing"
	"time"
)

// Shrink minimises the tapes of a failing run Hypothesis-style: generators are
// written so that smaller draws mean simpler behaviour (0 = no fault, no
// context switch, stop, immediately), so truncating, deleting, zeroing and
// lowering tape entries simplifies workload, faults and schedule alike. A
// candidate is kept only if a violation of the same class recurs.
func Shrink(t *testing.T, spec RunSpec, class string, budget time.Duration) (RunSpec, RunResult, int) {
	start := time.Now()
	tries := 0
	spec.Replay = true
	spec.Log = false
	var bestRes RunResult
	test := func(w, s []uint32) bool {
		if time.Since(start) > budget {
			return false
		}
		tries++
		c := spec
		c.W, c.S = w, s
		res := Execute(t, c)
		if res.HarnessError != "" {
			return false
		}
		for _, v := range res.Violations {
			if v.Class() == class {
				bestRes = res
				return true
			}
		}
		return false
	}
	w := append([]uint32(nil), spec.W...)
	s := append([]uint32(nil), spec.S...)
	if !test(w, s) {
		return spec, bestRes, tries
	}
	// normalise to what the run actually consumed
	w, s = trimZeros(bestRes.W), trimZeros(bestRes.S)
	shrinkOne := func(cur []uint32, other []uint32, isW bool) []uint32 {
		try := func(c []uint32) bool {
			if isW {
				return test(c, other)
			}
			return test(other, c)
		}
		// 1. truncate (binary search on prefix length; the rest reads as 0)
		lo, hi := 0, len(cur)
		for lo < hi {
			mid := (lo + hi) / 2
			if try(cur[:mid]) {
				hi = mid
			} else {
				lo = mid + 1
			}
		}
		if hi < len(cur) && try(cur[:hi]) {
			cur = append([]uint32(nil), cur[:hi]...)
		}
		// 2. delete blocks
		for _, bs := range []int{16, 8, 4, 2, 1} {
			for i := 0; i+bs <= len(cur); {
				c := append(append([]uint32(nil), cur[:i]...), cur[i+bs:]...)
				if try(c) {
					cur = c
				} else {
					i += bs
				}
				if time.Since(start) > budget {
					return cur
				}
			}
		}
		// 3. zero blocks
		for _, bs := range []int{8, 2, 1} {
			for i := 0; i+bs <= len(cur); i += bs {
				allZero := true
				for _, v := range cur[i : i+bs] {
					if v != 0 {
						allZero = false
					}
				}
				if allZero {
					continue
				}
				c := append([]uint32(nil), cur...)
				for k := i; k < i+bs; k++ {
					c[k] = 0
				}
				if try(c) {
					cur = c
				}
				if time.Since(start) > budget {
					return cur
				}
			}
		}
		// 4. lower single values
		for i := range cur {
			for cur[i] > 0 {
				c := append([]uint32(nil), cur...)
				c[i] = cur[i] / 2
				if try(c) {
					cur = c
					continue
				}
				c[i] = cur[i] - 1
				if try(c) {
					cur = c
					continue
				}
				break
			}
			if time.Since(start) > budget {
				return cur
			}
		}
		return trimZeros(cur)
	}
	for round := 0; round < 4; round++ {
		lw, ls := len(w), len(s)
		sw, ss := sum(w), sum(s)
		w = shrinkOne(w, s, true)
		s = shrinkOne(s, w, false)
		if (len(w) == lw && len(s) == ls && sum(w) == sw && sum(s) == ss) || time.Since(start) > budget {
			break
		}
	}
	// final canonical execution
	spec.W, spec.S = w, s
	final := Execute(t, spec)
	ok := false
	for _, v := range final.Violations {
		if v.Class() == class {
			ok = true
		}
	}
	if !ok {
		// should not happen (determinism); fall back to the last good one
		spec.W, spec.S = bestRes.W, bestRes.S
		final = bestRes
	}
	return spec, final, tries
}

func trimZeros(a []uint32) []uint32 {
	n := len(a)
	for n > 0 && a[n-1] == 0 {
		n--
	}
	return append([]uint32(nil), a[:n]...)
}

func sum(a []uint32) uint64 {
	var s uint64
	for _, v := range a {
		s += uint64(v)
	}
	return s
}
