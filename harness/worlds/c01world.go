package worlds

import (
	"fmt"
	"syscall"
	"time"

	"git.sr.ht/~rockorager/vaxis"
	"git.sr.ht/~rockorager/vaxis/simrt"

	"simharness/simterm"
)

// frameWorld runs the C01 workload: a real Vaxis session drawing a generated
// frame history on the reference terminal, compared after every flush. C07
// reuses it with its own oracles switched on.
type frameWorld struct {
	prop      string
	s         *simrt.Sched
	res       *RunResult
	env       *sessionEnv
	caps      simterm.Caps
	bits      int
	rows      int
	cols      int
	frames    []frame
	pers      simterm.Personality
	userIn    bool
	storm     bool // concurrent resizes at random moments
	stormN    int
	stormT    []int64
	stormSz   [][2]int
	colorterm string

	vx          *vaxis.Vaxis
	m           *appModel
	done        bool
	checked     int
	newErr      string
	frameNo     int
	caps07      map[string]bool
	capture     bool
	stormOver   bool
	resizerDone bool
	slow        bool // C07: replies late or missing; only soundness is checked
	sweep       bool // C07: colour sweep
}

func init() {
	Register("C01", func() World { return &frameWorld{prop: "C01"} })
}

func (w *frameWorld) SimName() string { return "frameWorld" }

func (w *frameWorld) Describe() any {
	return map[string]any{
		"size": fmt.Sprintf("%dx%d", w.rows, w.cols), "caps": capsString(w.caps), "frames": frameStrings(w.frames),
		"user_input": w.userIn, "resize_storm": w.stormSz, "COLORTERM": w.colorterm,
	}
}

// personalityFor is the personality the terminal will have once Vaxis has
// enabled what it enables for these capabilities: mode 2027 is requested only
// when advertised, and a terminal with explicit-width text clusters natively.
func personalityFor(c simterm.Caps) simterm.Personality {
	if c.ExplicitWidth || c.UnicodeCore {
		return simterm.PUnicode
	}
	return c.Base
}

func (w *frameWorld) Build(t *simrt.Tape, spec RunSpec) {
	w.capture = spec.Opts["capture"] != ""
	// capability subset: walked by run index so that every subset is covered,
	// the non-gating switches at random
	w.bits = (spec.Index - optInt(spec.Opts, "base", 0)) % (1 << numGating)
	if t.Draw(4) == 0 {
		w.bits = t.Draw(1 << numGating)
	}
	w.caps = capsFromBits(w.bits, t)
	if t.Draw(4) != 0 {
		w.rows, w.cols = 1+t.Draw(4), 1+t.Draw(10)
	} else {
		w.rows, w.cols = 1+t.Draw(12), 1+t.Draw(24)
	}
	if w.caps.ExplicitWidth && w.cols < 2 {
		// the explicit-width probe needs two columns to be observable
		w.cols = 2
	}
	w.pers = personalityFor(w.caps)
	w.storm = t.Draw(8) == 0
	cfg := frameGenCfg{rows: w.rows, cols: w.cols, pers: w.pers, explicitW: w.caps.ExplicitWidth, rich: t.Draw(3) != 0,
		resizes: t.Draw(3) == 0 && !w.storm, refreshes: true, maxFrames: 8, maxOps: 14}
	w.frames = genFrames(t, cfg)
	w.userIn = t.Draw(3) == 0
	if w.storm {
		n := 1 + t.Draw(3)
		for i := 0; i < n; i++ {
			w.stormT = append(w.stormT, drawGrid(t, 200_000))
			w.stormSz = append(w.stormSz, [2]int{1 + t.Draw(6), 1 + t.Draw(12)})
		}
	}
	if w.prop == "C07" && t.Draw(6) == 0 {
		w.colorterm = []string{"truecolor", "24bit", "yes"}[t.Draw(3)]
	}
	if w.prop == "C07" && t.Draw(4) == 0 {
		w.slow = true
		w.storm = false
		for i := range w.frames {
			if w.frames[i].End == endResize {
				w.frames[i].End = endRender
			}
		}
	}
	if n := optInt(spec.Opts, "colorsweep", 0); n > 0 {
		// all direct colours: run k of the phase covers colours [k*n, (k+1)*n)
		k := spec.Index - optInt(spec.Opts, "base", 0)
		w.sweep, w.slow, w.storm, w.userIn, w.colorterm = true, false, false, false, ""
		w.rows, w.cols = 64, n/64
		w.bits &^= capRGB
		if k%3 == 2 {
			w.bits |= capStyledUL
		}
		w.caps = capsFromBits(w.bits, t)
		w.caps.RGB = false
		w.pers = personalityFor(w.caps)
		w.frames = []frame{sweepFrame(w.rows, w.cols, uint32(k/3*n), k%3)}
	}
}

func (w *frameWorld) Start(s *simrt.Sched, res *RunResult) {
	w.s, w.res = s, res
	s.MaxSteps = 120000
	w.env = newSessionEnv(s, res, w.rows, w.cols, w.caps)
	// the terminal is not pristine when the application starts: the cursor
	// is wherever the shell left it
	w.env.term.R, w.env.term.C = s.Tape.Draw(w.rows), s.Tape.Draw(w.cols)
	w.env.replyDelay = promptReplies(s)
	if w.slow {
		w.env.replyDelay = slowReplies(s, res)
	}
	w.env.capture = w.capture
	w.env.chunkMode = s.Tape.Draw(4)
	if w.colorterm != "" {
		s.Env["COLORTERM"] = w.colorterm
	}
	w.env.start()
	s.Go("app", w.app)
}

// pollUntil polls events until pred accepts one, with a bound in simulated time.
func (w *frameWorld) pollUntil(what string, pred func(vaxis.Event) bool) bool {
	deadline := w.s.Now() + 30*time.Second
	for {
		var ev vaxis.Event
		var ok bool
		tm := time.NewTimer(deadline - w.s.Now())
		k := simrt.Select("app.poll:"+what, false, simrt.CaseRecv(w.vx.Events(), &ev, &ok), simrt.CaseRecv(tm.C, nil, nil))
		tm.Stop()
		if k == 1 {
			return false
		}
		if k == 0 && !ok {
			return false
		}
		if fn, isFn := ev.(vaxis.SyncFunc); isFn {
			fn()
		}
		if w.capture {
			w.res.Diag = append(w.res.Diag, fmt.Sprintf("t=%v app got %T %+v while waiting for %s", w.s.Now(), ev, ev, what))
		}
		if pred(ev) {
			return true
		}
	}
}

// drain empties the event queue without blocking.
func (w *frameWorld) drain(onEv func(vaxis.Event)) {
	for {
		var ev vaxis.Event
		var ok bool
		k := simrt.Select("app.drain", true, simrt.CaseRecv(w.vx.Events(), &ev, &ok))
		if k < 0 || !ok {
			return
		}
		if onEv != nil {
			onEv(ev)
		}
	}
}

func (w *frameWorld) app() {
	defer func() {
		w.done = true
		w.env.shutdown()
		w.s.Finish()
	}()
	vx, err := newVaxis(w.env, vaxis.Options{})
	if err != nil {
		w.newErr = err.Error()
		return
	}
	w.vx = vx
	w.m = newAppModel(w.rows, w.cols)
	if w.prop == "C07" {
		w.afterNew07()
	}
	// the initial Resize event
	w.pollUntil("initial-resize", func(ev vaxis.Event) bool { _, ok := ev.(vaxis.Resize); return ok })
	if w.userIn {
		w.s.Go("user", w.user)
	}
	if w.storm {
		w.s.Go("resizer", w.resizer)
	}
	inSync := false // the terminal shows the previous frame
	for i, fr := range w.frames {
		w.frameNo = i
		if w.storm {
			// follow whatever resizes happened meanwhile
			w.followResizes()
			inSync = false
		}
		applyOps(vx, w.m, fr.Ops, w.pers)
		switch fr.End {
		case endRefresh:
			if fr.Scramble {
				w.env.quiesce()
				w.env.term.Scramble(func(n int) int { return w.s.Tape.Draw(n) })
				w.res.Fault("display-scramble")
			}
			vx.Refresh()
			w.check(fmt.Sprintf("frame %d (Refresh)", i))
			inSync = true
		case endRender:
			vx.Render()
			if inSync || i == 0 {
				w.check(fmt.Sprintf("frame %d (Render)", i))
			} else {
				w.flushInvariants(fmt.Sprintf("frame %d (Render)", i))
			}
			inSync = true
		case endResize:
			vx.Render()
			if inSync || i == 0 {
				w.check(fmt.Sprintf("frame %d (Render before resize)", i))
			}
			w.doResize(fr.NewRows, fr.NewCols, fr.Scramble)
			inSync = true // the first frame after a size change must repair everything
		}
		if w.userIn && !w.storm {
			w.drain(nil)
		}
	}
	if w.storm {
		simrt.WaitUntil(w, "app.wait-resizer", func() bool { return w.resizerDone })
		w.followResizes()
		w.stormOver = true
		vx.Render()
		w.check("final frame after resize storm")
	}
	if w.prop == "C07" {
		w.beforeClose07()
	}
	w.vx.Close()
	w.env.settle()
}

// doResize performs the documented protocol for one size change.
func (w *frameWorld) doResize(rows, cols int, scramble bool) {
	w.env.quiesce()
	if rows == w.env.term.Rows && cols == w.env.term.Cols {
		// not a size change
		cols++
	}
	w.res.Fault("resize")
	rep := w.env.term.Resize(rows, cols)
	if scramble {
		w.env.term.Scramble(func(n int) int { return w.s.Tape.Draw(n) })
		w.res.Fault("display-scramble")
	}
	if len(rep) > 0 {
		w.env.send(rep, 0)
	} else {
		w.s.Deliver(syscall.SIGWINCH)
	}
	// the application's event loop: render on every Redraw until the Resize
	// event for the new size arrives
	got := false
	var sz vaxis.Resize
	w.pollUntil("resize-event", func(ev vaxis.Event) bool {
		switch e := ev.(type) {
		case vaxis.Redraw:
			w.vx.Render()
		case vaxis.Resize:
			sz, got = e, true
			return e.Rows == rows && e.Cols == cols
		}
		return false
	})
	if !got || sz.Rows != rows || sz.Cols != cols {
		w.res.Violate("resize-event", "vaxis.Render", "frame %d: terminal changed to %dx%d; the application rendered on every Redraw for 30 s but the last Resize event was %+v (received=%v)", w.frameNo, rows, cols, sz, got)
		return
	}
	w.m = newAppModelKeepCursor(w.m, rows, cols)
	if !w.m.curVisible {
		w.vx.HideCursor()
	}
}

func newAppModelKeepCursor(old *appModel, rows, cols int) *appModel {
	m := newAppModel(rows, cols)
	m.curVisible, m.curRow, m.curCol, m.curStyle = old.curVisible, old.curRow, old.curCol, old.curStyle
	if m.curVisible && (m.curRow >= rows || m.curCol >= cols) {
		// a cursor outside the new screen: no defined expectation; the app
		// hides it, as an application would on a resize
		m.curVisible = false
	}
	return m
}

// resizer changes the terminal size at arbitrary moments.
func (w *frameWorld) resizer() {
	defer func() {
		w.resizerDone = true
		simrt.Notify(w)
	}()
	for i, d := range w.stormT {
		simrt.Sleep(time.Duration(d) * time.Microsecond)
		w.res.Fault("resize-anytime")
		rep := w.env.term.Resize(w.stormSz[i][0], w.stormSz[i][1])
		w.stormN++
		if len(rep) > 0 {
			w.env.send(rep, 0)
		} else {
			w.s.Deliver(syscall.SIGWINCH)
		}
		simrt.Yield("resizer")
	}
}

// followResizes is the application's side of asynchronous resizes: it keeps
// polling and rendering until things are quiet, like an event loop would.
func (w *frameWorld) followResizes() {
	quiet := 0
	for n := 0; n < 60 && quiet < 3; n++ {
		progressed := false
		w.drain(func(ev vaxis.Event) {
			switch e := ev.(type) {
			case vaxis.Redraw:
				w.vx.Render()
				progressed = true
			case vaxis.Resize:
				w.m = newAppModelKeepCursor(w.m, e.Rows, e.Cols)
				if !w.m.curVisible {
					w.vx.HideCursor()
				}
				progressed = true
			}
		})
		if progressed {
			quiet = 0
		} else {
			quiet++
			simrt.Sleep(100 * time.Millisecond)
		}
	}
	if !w.m.curVisible {
		w.vx.HideCursor()
	}
}

// user types keys while the application renders.
func (w *frameWorld) user() {
	keys := []string{"a", "\x1b[A", "\r", "x", "\x1b[<0;1;1M", "\x1b[<0;1;1m", "\x1b[I"}
	for i := 0; i < 12 && !w.done; i++ {
		simrt.Sleep(time.Duration(Grid[w.s.Tape.Draw(12)]) * time.Microsecond)
		if w.done {
			return
		}
		w.env.send([]byte(keys[w.s.Tape.Draw(len(keys))]), 0)
		w.res.Fault("input-during-session")
	}
}

func (w *frameWorld) flushInvariants(at string) bool {
	w.env.quiesce()
	t := w.env.term
	if t.Pen != (simterm.Style{}) {
		w.res.Violate("pen-not-reset", "vaxis.Render", "%s: after the flush the terminal's pen is %+v", at, t.Pen)
		return false
	}
	if t.SyncDepth != 0 || t.SyncUnbalanced != 0 {
		w.res.Violate("sync-unbalanced", "vaxis.Render", "%s: synchronized-update mode left set=%v, unbalanced set/reset pairs=%d", at, t.SyncDepth != 0, t.SyncUnbalanced)
		return false
	}
	return true
}

// check compares the terminal with the application's record after a flush.
func (w *frameWorld) check(at string) {
	if !w.flushInvariants(at) {
		return
	}
	if w.slow {
		// which capabilities a slow terminal's replies establish depends on
		// time-outs the harness does not mirror: only soundness is checked
		return
	}
	if w.storm && !w.stormOver {
		// the size may change under the frame at any moment: only the
		// frame drawn after the last resize is compared
		return
	}
	w.checked++
	t := w.env.term
	if !t.OnAlt() {
		w.res.Violate("not-on-alt-screen", "vaxis", "%s: the frame was drawn on the primary screen", at)
		return
	}
	ec := w.caps
	if w.colorterm == "truecolor" || w.colorterm == "24bit" {
		ec.RGB = true // COLORTERM is the documented way to declare direct colour
	}
	exp := expectedDisplay(w.m, ec, t.CurrentPersonality())
	if d := compareDisplay(t, exp); d != "" {
		w.res.Violate("display", "vaxis.render", "%s: %s\nterminal: %dx%d %s personality=%d\nhistory: %s", at, d, w.env.term.Rows, w.env.term.Cols, capsString(w.caps), t.CurrentPersonality(), toJSON(frameStrings(w.frames[:w.frameNo+1])))
		return
	}
	switch {
	case !w.m.curVisible && t.CursorVisible:
		w.res.Violate("cursor", "vaxis.Render", "%s: cursor is visible (at row %d col %d), the application last requested it hidden\nhistory: %s", at, t.R, t.C, toJSON(frameStrings(w.frames[:w.frameNo+1])))
	case w.m.curVisible && !t.CursorVisible:
		w.res.Violate("cursor", "vaxis.Render", "%s: cursor is hidden, the application requested it at row %d col %d\nhistory: %s", at, w.m.curRow, w.m.curCol, toJSON(frameStrings(w.frames[:w.frameNo+1])))
	case w.m.curVisible && (t.R != w.m.curRow || t.C != w.m.curCol):
		w.res.Violate("cursor", "vaxis.Render", "%s: cursor at row %d col %d, requested row %d col %d\nhistory: %s", at, t.R, t.C, w.m.curRow, w.m.curCol, toJSON(frameStrings(w.frames[:w.frameNo+1])))
	case w.m.curVisible && t.CursorStyle != int(w.m.curStyle):
		w.res.Violate("cursor", "vaxis.Render", "%s: cursor shape %d, requested %d\nhistory: %s", at, t.CursorStyle, w.m.curStyle, toJSON(frameStrings(w.frames[:w.frameNo+1])))
	}
}

func (w *frameWorld) Finish(s *simrt.Sched, res *RunResult) {
	taskPanics(s, res, "panic")
	res.Nontrivial = len(w.frames) > 1
	res.EndState = fmt.Sprintf("%s checked=%d bits=%d", s.End, w.checked, w.bits)
	if w.newErr != "" {
		res.Violate("new-failed", "vaxis.New", "New returned %s", w.newErr)
	}
	if s.End != simrt.EndFinished {
		res.Diag = append(res.Diag, "run ended by "+s.End+": "+fmt.Sprint(s.Picture()))
	}
	if len(w.env.term.Unknown) > 0 {
		res.Diag = append(res.Diag, "terminal received sequences outside its vocabulary: "+fmt.Sprint(w.env.term.Unknown[:min(3, len(w.env.term.Unknown))]))
	}
	if w.prop == "C07" {
		w.finish07(res)
	}
}
