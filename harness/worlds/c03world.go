package worlds

import (
	"context"
	"encoding/base64"
	"fmt"
	"strings"
	"time"

	"git.sr.ht/~rockorager/vaxis"
	"git.sr.ht/~rockorager/vaxis/simrt"

	"simharness/simterm"
)

// inputWorld runs the C03 workload: after a prompt start-up the terminal sends
// a stream of segments. WELL segments are well-formed user-input reports, each
// followed by a unique sentinel key; JUNK segments are anything at all,
// terminated by CAN and a paste-end so that parser and paste state are back at
// ground, then a sentinel. Meanwhile other tasks issue real queries whose
// replies are delayed around the requesters' time-outs, or dropped.
type inputWorld struct {
	s    *simrt.Sched
	res  *RunResult
	env  *sessionEnv
	caps simterm.Caps
	rows int
	cols int

	segs    []segment
	queries []queryPlan
	qsize   int

	vx           *vaxis.Vaxis
	events       []gotEvent
	lastSent     bool
	done         bool
	typed        bool
	sentAt       []time.Duration // when each segment's last byte was handed to the wire
	qres         []string
	lateCPR      int
	queriersLeft int
	pollStop     bool
	known        map[string]bool
}

// isInternalEvent: an event whose type the application cannot even name.
func isInternalEvent(ev vaxis.Event) bool {
	name := fmt.Sprintf("%T", ev)
	if !strings.HasPrefix(name, "vaxis.") {
		return false
	}
	c := name[len("vaxis."):]
	return c != "" && c[0] >= 'a' && c[0] <= 'z'
}

type expEv struct {
	Kind  string // key, mouse, focus-in, focus-out, paste-start, paste-end
	Rune  rune
	Mods  vaxis.ModifierMask
	Type  vaxis.EventType
	Mouse vaxis.Mouse
	Desc  string
	Body  string
}

type segment struct {
	Well     bool
	Bytes    []byte
	Exp      []expEv
	Sentinel rune
	GapUs    int64
	Chunk    int
	Desc     []string
}

type gotEvent struct {
	ev vaxis.Event
	at time.Duration
}

type queryPlan struct {
	Kind    int // 0 CursorPosition, 1 QueryColor, 2 QueryForeground, 3 QueryBackground, 4 ClipboardPop
	AtUs    int64
	DelayUs int64
	Drop    bool
	Arg     int
	CtxUs   int64
}

func init() {
	Register("C03", func() World { return &inputWorld{} })
}

func (w *inputWorld) SimName() string { return "inputWorld" }

func (w *inputWorld) Describe() any {
	var segs []any
	for i, sg := range w.segs {
		kind := "JUNK"
		if sg.Well {
			kind = "WELL"
		}
		segs = append(segs, map[string]any{"n": i, "kind": kind, "gap_us": sg.GapUs, "bytes": fmt.Sprintf("%q", sg.Bytes), "reports": sg.Desc})
	}
	var qs []string
	for _, q := range w.queries {
		qs = append(qs, fmt.Sprintf("%s at +%dus reply after %dus drop=%v", []string{"CursorPosition", "QueryColor", "QueryForeground", "QueryBackground", "ClipboardPop"}[q.Kind], q.AtUs, q.DelayUs, q.Drop))
	}
	return map[string]any{"caps": capsString(w.caps), "size": fmt.Sprintf("%dx%d", w.rows, w.cols), "segments": segs, "queries": qs, "event_queue": w.qsize}
}

const sentinelBase = 0xF0000

// ---------------------------------------------------------------- generator

type specialKey struct {
	seq  string // printf pattern with %s for the modifier parameter
	mod  string // how modifiers are attached: "csi1" (CSI 1;m X), "tilde" (CSI n;m ~), "none"
	code rune
	name string
}

var specialKeys = []specialKey{
	{"\x1b[%sA", "csi1", vaxis.KeyUp, "Up"}, {"\x1b[%sB", "csi1", vaxis.KeyDown, "Down"},
	{"\x1b[%sC", "csi1", vaxis.KeyRight, "Right"}, {"\x1b[%sD", "csi1", vaxis.KeyLeft, "Left"},
	{"\x1b[%sH", "csi1", vaxis.KeyHome, "Home"}, {"\x1b[%sF", "csi1", vaxis.KeyEnd, "End"},
	{"\x1b[2%s~", "tilde", vaxis.KeyInsert, "Insert"}, {"\x1b[3%s~", "tilde", vaxis.KeyDelete, "Delete"},
	{"\x1b[5%s~", "tilde", vaxis.KeyPgUp, "PgUp"}, {"\x1b[6%s~", "tilde", vaxis.KeyPgDown, "PgDown"},
	{"\x1b[15%s~", "tilde", vaxis.KeyF05, "F5"}, {"\x1b[17%s~", "tilde", vaxis.KeyF06, "F6"},
	{"\x1b[18%s~", "tilde", vaxis.KeyF07, "F7"}, {"\x1b[19%s~", "tilde", vaxis.KeyF08, "F8"},
	{"\x1b[20%s~", "tilde", vaxis.KeyF09, "F9"}, {"\x1b[21%s~", "tilde", vaxis.KeyF10, "F10"},
	{"\x1b[23%s~", "tilde", vaxis.KeyF11, "F11"}, {"\x1b[24%s~", "tilde", vaxis.KeyF12, "F12"},
	{"\x1bOA", "none", vaxis.KeyUp, "Up(SS3)"}, {"\x1bOB", "none", vaxis.KeyDown, "Down(SS3)"},
	{"\x1bOC", "none", vaxis.KeyRight, "Right(SS3)"}, {"\x1bOD", "none", vaxis.KeyLeft, "Left(SS3)"},
	{"\x1bOH", "none", vaxis.KeyHome, "Home(SS3)"}, {"\x1bOF", "none", vaxis.KeyEnd, "End(SS3)"},
	{"\x1bOP", "none", vaxis.KeyF01, "F1"}, {"\x1bOQ", "none", vaxis.KeyF02, "F2"}, {"\x1bOS", "none", vaxis.KeyF04, "F4"},
}

func xtermMods(t *simrt.Tape) (vaxis.ModifierMask, int) {
	bits := t.Draw(8)
	var m vaxis.ModifierMask
	if bits&1 != 0 {
		m |= vaxis.ModShift
	}
	if bits&2 != 0 {
		m |= vaxis.ModAlt
	}
	if bits&4 != 0 {
		m |= vaxis.ModCtrl
	}
	return m, bits
}

var pasteText = []string{"a", "B", " ", "é", "中", "😀", "\t", "\r", "\n", "x̂", "1", ";", "[", "~"}

func genWellReport(t *simrt.Tape, cols, rows int, allowF3 bool) ([]byte, []expEv, string) {
	key := func(r rune, m vaxis.ModifierMask, ty vaxis.EventType, d string) []expEv {
		return []expEv{{Kind: "key", Rune: r, Mods: m, Type: ty, Desc: d}}
	}
	if allowF3 && t.Draw(2) == 0 {
		// F3 with modifiers shares its encoding (CSI 1;m R) with the cursor
		// position report: only sent once no such query can be outstanding
		m, bits := xtermMods(t)
		if bits == 0 {
			m, bits = vaxis.ModShift, 1
		}
		d := fmt.Sprintf("F3 mods=%d", bits)
		return []byte(fmt.Sprintf("\x1b[1;%dR", bits+1)), key(vaxis.KeyF03, m, vaxis.EventPress, d), d
	}
	switch t.Draw(12) {
	case 0, 1: // printable text
		pool := []string{"a", "z", "0", "9", "/", ";", " ", "é", "ß", "中", "😀"}
		s := pool[t.Draw(len(pool))]
		r := []rune(s)[0]
		return []byte(s), key(r, 0, vaxis.EventPress, fmt.Sprintf("text %q", s)), fmt.Sprintf("text %q", s)
	case 2: // C0 keys
		switch t.Draw(5) {
		case 0:
			return []byte{0x0d}, key(vaxis.KeyEnter, 0, vaxis.EventPress, "Enter"), "Enter"
		case 1:
			return []byte{0x09}, key(vaxis.KeyTab, 0, vaxis.EventPress, "Tab"), "Tab"
		case 2:
			return []byte{0x7f}, key(vaxis.KeyBackspace, 0, vaxis.EventPress, "Backspace"), "Backspace"
		default:
			c := 1 + t.Draw(26)
			for c == 0x09 || c == 0x0d || c == 0x08 || c == 0x18 || c == 0x1a {
				c = 1 + t.Draw(26)
			}
			return []byte{byte(c)}, key(rune(c+0x60), vaxis.ModCtrl, vaxis.EventPress, fmt.Sprintf("Ctrl+%c", c+0x60)), fmt.Sprintf("Ctrl+%c", c+0x60)
		}
	case 3: // Alt + key
		c := "abcxyz0189"[t.Draw(10)]
		return []byte{0x1b, c}, key(rune(c), vaxis.ModAlt, vaxis.EventPress, fmt.Sprintf("Alt+%c", c)), fmt.Sprintf("Alt+%c", c)
	case 4, 5: // special keys with xterm modifiers
		sk := specialKeys[t.Draw(len(specialKeys))]
		m, bits := xtermMods(t)
		p := ""
		switch sk.mod {
		case "csi1":
			if bits != 0 {
				p = fmt.Sprintf("1;%d", bits+1)
			}
		case "tilde":
			if bits != 0 {
				p = fmt.Sprintf(";%d", bits+1)
			}
		default:
			m = 0
			return []byte(sk.seq), key(sk.code, 0, vaxis.EventPress, sk.name), sk.name
		}
		d := fmt.Sprintf("%s mods=%d", sk.name, bits)
		return []byte(fmt.Sprintf(sk.seq, p)), key(sk.code, m, vaxis.EventPress, d), d
	case 6: // kitty CSI u
		cps := []rune{'a', 'q', '1', ';', 0xe9, 13, 9, 127, 27}
		cp := cps[t.Draw(len(cps))]
		m, bits := xtermMods(t)
		ty := vaxis.EventPress
		evs := ""
		switch t.Draw(4) {
		case 1:
			ty, evs = vaxis.EventRepeat, ":2"
		case 2:
			ty, evs = vaxis.EventRelease, ":3"
		case 3:
			evs = ":1"
		}
		var s string
		switch {
		case bits == 0 && evs == "":
			s = fmt.Sprintf("\x1b[%du", cp)
		default:
			s = fmt.Sprintf("\x1b[%d;%d%su", cp, bits+1, evs)
		}
		d := fmt.Sprintf("kitty cp=%d mods=%d ev=%q", cp, bits, evs)
		return []byte(s), key(cp, m, ty, d), d
	case 7, 8: // SGR mouse
		btn := []int{0, 1, 2, 64, 65, 128, 129}[t.Draw(7)]
		m, bits := xtermMods(t)
		b := btn
		if bits&1 != 0 {
			b |= 4
		}
		if bits&2 != 0 {
			b |= 8
		}
		if bits&4 != 0 {
			b |= 16
		}
		x, y := 1+t.Draw(cols), 1+t.Draw(rows)
		if t.Draw(6) == 0 {
			x, y = 1+t.Draw(300), 1+t.Draw(300)
		}
		final := "M"
		ty := vaxis.EventPress
		switch t.Draw(4) {
		case 1:
			if btn < 64 {
				final, ty = "m", vaxis.EventRelease
			}
		case 2:
			b |= 32
			ty = vaxis.EventMotion
		case 3:
			// motion without a button
			b = b&^0xc3 | 3 | 32
			btn = 3
			ty = vaxis.EventMotion
		}
		s := fmt.Sprintf("\x1b[<%d;%d;%d%s", b, x, y, final)
		exp := vaxis.Mouse{Button: vaxis.MouseButton(btn), Row: y - 1, Col: x - 1, EventType: ty, Modifiers: m}
		d := fmt.Sprintf("mouse %+v", exp)
		return []byte(s), []expEv{{Kind: "mouse", Mouse: exp, Desc: d}}, d
	case 9: // focus
		if t.Draw(2) == 0 {
			return []byte("\x1b[I"), []expEv{{Kind: "focus-in", Desc: "focus in"}}, "focus in"
		}
		return []byte("\x1b[O"), []expEv{{Kind: "focus-out", Desc: "focus out"}}, "focus out"
	default: // bracketed paste
		var body string
		var exp []expEv
		exp = append(exp, expEv{Kind: "paste-start", Desc: "paste start"})
		for k := t.Draw(6); k > 0; k-- {
			body += pasteText[t.Draw(len(pasteText))]
		}
		exp = append(exp, expEv{Kind: "paste-body", Desc: fmt.Sprintf("pasted %q", body), Body: body})
		exp = append(exp, expEv{Kind: "paste-end", Desc: "paste end"})
		return []byte("\x1b[200~" + body + "\x1b[201~"), exp, fmt.Sprintf("paste %q", body)
	}
}

var junkPool = []string{
	// replies to queries nobody asked
	"\x1b[?62;4c", "\x1b[?1;2c", "\x1b[1;1R", "\x1b[12;40R", "\x1b[?2026;2$y", "\x1b[?2027;1$y", "\x1b[?2031;2$y", "\x1b[?0u", "\x1b[?31u",
	"\x1b_Gi=1;OK\x1b\\", "\x1b[?2;0;800;600S", "\x1b[4;600;800t", "\x1b[8;24;80t", "\x1b[8;24;80t", "\x1b[48;24;80;600;800t",
	"\x1bP1+r524742=382F382F38\x1b\\", "\x1bP1+r536D756C78\x1b\\", "\x1bP0+r\x1b\\", "\x1bP!|7E565445\x1b\\", "\x1bP>|term 1.0\x1b\\", "\x1bP1$r2 q\x1b\\",
	"\x1b]4;1;rgb:ffff/0000/0000\x1b\\", "\x1b]4;1;rgb:ffff/0000/0000\x1b\\", "\x1b]10;rgb:1111/2222/3333\x07", "\x1b]10;rgb:1111/2222/3333\x07", "\x1b]11;rgb:0000/0000/0000\x1b\\", "\x1b]11;rgb:0000/0000/0000\x1b\\",
	"\x1b]52;c;aGVsbG8=\x1b\\", "\x1b]176;someapp\x1b\\", "\x1b[?997;1n", "\x1b[?997;2n",
	// truncated and malformed forms
	"\x1b[M", "\x1b[m", "\x1b[Mabc", "\x1b[0;1;1M", "\x1b[<0;1M", "\x1b[<M", "\x1b[<;;M", "\x1b[?c", "\x1b[?;c", "\x1b[?y", "\x1b[y", "\x1b[2026y", "\x1b[?2026$y", "\x1b[t", "\x1b[8t", "\x1b[8;1t", "\x1b[4;;t", "\x1b[48;1;1t", "\x1b[48;;;;t",
	"\x1b[?S", "\x1b[?2S", "\x1b[?2;0S", "\x1b[?;;S", "\x1b[?n", "\x1b[?997n", "\x1b[R", "\x1b[;R", "\x1b[1R", "\x1b[1;2;3R", "\x1b[~", "\x1b[;~", "\x1b[200;1~", "\x1b[u", "\x1b[;u", "\x1b[;;u", "\x1b[1:2:3;4:5u",
	"\x1bP+r\x1b\\", "\x1bP1+r\x1b\\", "\x1bP1+r=\x1b\\", "\x1bP1+r==\x1b\\", "\x1bP$r\x1b\\", "\x1bP1$r q\x1b\\", "\x1bP1$r9 q\x1b\\", "\x1bP!|\x1b\\", "\x1bP>|\x1b\\", "\x1bP|\x1b\\", "\x1bPr\x1b\\",
	"\x1b]52\x1b\\", "\x1b]52;c\x1b\\", "\x1b]52;c;!!!notbase64\x1b\\", "\x1b]52;c;a;b\x1b\\", "\x1b]176\x1b\\", "\x1b]176;a;b\x1b\\", "\x1b]4\x1b\\", "\x1b]4;1;?\x1b\\", "\x1b]10\x07", "\x1b]11;?\x07", "\x1b]\x1b\\", "\x1b_\x1b\\", "\x1b_G\x1b\\",
	"\x1b[99999999999999999999;1R", "\x1b[<99999999999;99999999999;99999999999M", "\x1b[1;99999999999999999999999u",
	"\x1b[200~", "\x1b[201~", "\x1b[200~\x1b[200~", "\x1bO", "\x1b[", "\x1b]0;unterminated", "\x1bP", "\x1b_", "\x1b^", "\x1bX",
}

// a report of the same shape as the reply to an outstanding query cannot be
// told from that reply by anybody: such junk is left out of runs that make the
// matching query, so that the exact-answer oracle stays meaningful
func junkAllowed(j string, avoid map[int]bool) bool {
	switch {
	case avoid[0] && strings.HasSuffix(j, "R"):
		return false
	case avoid[1] && strings.HasPrefix(j, "\x1b]4"):
		return false
	case avoid[2] && strings.HasPrefix(j, "\x1b]10"):
		return false
	case avoid[3] && strings.HasPrefix(j, "\x1b]11"):
		return false
	case avoid[4] && strings.HasPrefix(j, "\x1b]52"):
		return false
	}
	return true
}

// junkConflicts parses the assembled junk with the reference automaton and
// reports whether it contains, possibly composed from several items, a report
// of the shape of a reply to one of the queries this run makes.
func junkConflicts(b []byte, avoid map[int]bool) bool {
	if len(avoid) == 0 {
		return false
	}
	p := simterm.NewParser()
	items := append(p.Feed(b), p.Flush()...)
	for _, it := range items {
		switch it.Kind {
		case simterm.KCSI:
			if avoid[0] && it.Final == 'R' {
				return true
			}
		case simterm.KOSC:
			d := string(it.Data)
			if avoid[1] && strings.HasPrefix(d, "4") || avoid[2] && strings.HasPrefix(d, "10") ||
				avoid[3] && strings.HasPrefix(d, "11") || avoid[4] && strings.HasPrefix(d, "52") {
				return true
			}
		case simterm.KTaint:
			// undefined region: be conservative
			return avoid[0] || avoid[1] || avoid[2] || avoid[3] || avoid[4]
		}
	}
	return false
}

func genJunk(t *simrt.Tape, avoid map[int]bool) ([]byte, []string) {
	var out []byte
	var desc []string
	for k := 1 + t.Draw(6); k > 0; k-- {
		switch t.Draw(6) {
		case 0:
			n := 1 + t.Draw(12)
			var b []byte
			for i := 0; i < n; i++ {
				b = append(b, byte(t.Draw(256)))
			}
			out = append(out, b...)
			desc = append(desc, fmt.Sprintf("raw %q", b))
		default:
			j := junkPool[t.Draw(len(junkPool))]
			if !junkAllowed(j, avoid) {
				continue
			}
			rep := 1
			if t.Draw(4) == 0 {
				rep = 2 + t.Draw(3)
			}
			for i := 0; i < rep; i++ {
				out = append(out, j...)
			}
			desc = append(desc, fmt.Sprintf("%dx %q", rep, j))
		}
	}
	// resynchronise: CAN aborts any sequence or string, a paste-end closes
	// a paste the junk may have opened
	out = append(out, 0x18)
	out = append(out, "\x1b[201~"...)
	return out, desc
}

func sentinelBytes(r rune) []byte { return []byte(fmt.Sprintf("\x1b[%du", r)) }

func (w *inputWorld) Build(t *simrt.Tape, spec RunSpec) {
	w.known = knownSet(spec)
	bits := (spec.Index - optInt(spec.Opts, "base", 0)) % (1 << numGating)
	w.caps = capsFromBits(bits, t)
	w.rows, w.cols = 4+t.Draw(20), 10+t.Draw(70)
	w.qsize = 0
	if t.Draw(8) == 0 {
		w.qsize = 2 + t.Draw(6)
	}
	avoid := map[int]bool{}
	for k := t.Draw(4); k > 0; k-- {
		q := queryPlan{Kind: t.Draw(5), AtUs: drawGrid(t, 500_000), Arg: t.Draw(256)}
		switch t.Draw(6) {
		case 0:
			q.Drop = true
		case 1:
			q.DelayUs = []int64{49000, 50000, 51000, 9000, 10000, 11000}[t.Draw(6)]
		default:
			q.DelayUs = drawGrid(t, 200_000)
		}
		q.CtxUs = []int64{5000, 20000, 100000}[t.Draw(3)]
		if !avoid[q.Kind] {
			avoid[q.Kind] = true // one outstanding query per kind
			w.queries = append(w.queries, q)
		}
	}
	n := 2 + t.Draw(10)
	next := rune(sentinelBase)
	for i := 0; i < n; i++ {
		var sg segment
		sg.Well = t.Draw(3) != 0
		sg.Chunk = t.Draw(4)
		if t.Draw(3) == 0 {
			sg.GapUs = drawGrid(t, 200_000)
		}
		last := i == n-1
		if last && avoid[0] {
			sg.Well = true
		}
		if sg.Well {
			for k := 1 + t.Draw(4); k > 0; k-- {
				b, exp, d := genWellReport(t, w.cols, w.rows, last)
				sg.Bytes = append(sg.Bytes, b...)
				sg.Exp = append(sg.Exp, exp...)
				sg.Desc = append(sg.Desc, d)
			}
		} else {
			for try := 0; ; try++ {
				sg.Bytes, sg.Desc = genJunk(t, avoid)
				if !junkConflicts(sg.Bytes, avoid) {
					break
				}
				if try == 5 {
					sg.Bytes, sg.Desc = []byte("\x18\x1b[201~"), []string{"(empty)"}
					break
				}
			}
		}
		sg.Sentinel = next
		next++
		w.segs = append(w.segs, sg)
	}
}

func (w *inputWorld) Start(s *simrt.Sched, res *RunResult) {
	w.s, w.res = s, res
	s.MaxSteps = 200000
	s.MaxTime = 40 * time.Minute
	w.env = newSessionEnv(s, res, w.rows, w.cols, w.caps)
	w.env.replyDelay = promptReplies(s)
	w.env.chunkMode = s.Tape.Draw(4)
	w.env.term.Clipboard = "clip-0"
	w.env.start()
	s.Go("app", w.app)
}

func (w *inputWorld) app() {
	defer func() {
		w.done = true
		w.env.shutdown()
		w.s.Finish()
	}()
	vx, err := newVaxis(w.env, vaxis.Options{EventQueueSize: w.qsize})
	if err != nil {
		w.res.Violate("new-failed", "vaxis.New", "%v", err)
		return
	}
	w.vx = vx
	w.env.settle()
	// from now on replies follow the per-query plan
	w.s.Go("typist", w.typist)
	w.queriersLeft = len(w.queries)
	for i := range w.queries {
		q := w.queries[i]
		idx := i
		w.s.Go(fmt.Sprintf("querier-%d", i), func() {
			defer func() {
				w.queriersLeft--
				simrt.Notify(w)
			}()
			w.querier(idx, q)
		})
	}
	w.qres = make([]string, len(w.queries))
	last := w.segs[len(w.segs)-1].Sentinel
	// the main task keeps polling, as the documented contract requires
	for {
		var ev vaxis.Event
		var ok bool
		var deadline <-chan time.Time
		var tm *time.Timer
		if w.typed {
			// everything was sent: bounded liveness from here
			tm = time.NewTimer(60 * time.Second)
			deadline = tm.C
		} else {
			tm = time.NewTimer(10 * time.Minute)
			deadline = tm.C
		}
		k := simrt.Select("app.poll", false, simrt.CaseRecv(vx.Events(), &ev, &ok), simrt.CaseRecv(deadline, nil, nil))
		tm.Stop()
		if k == 1 || !ok {
			break
		}
		w.events = append(w.events, gotEvent{ev: ev, at: w.s.Now()})
		if kev, isKey := ev.(vaxis.Key); isKey && kev.Keycode == last {
			w.lastSent = true
			break
		}
	}
	w.pollStop = true
}

func (w *inputWorld) typist() {
	simrt.Sleep(time.Millisecond)
	for si, sg := range w.segs {
		if si == len(w.segs)-1 {
			// the last segment may contain CSI R function keys: wait until no
			// cursor-position query can be outstanding and its late reply, if
			// any, has been delivered
			simrt.WaitUntil(w, "typist.wait-queriers", func() bool { return w.queriersLeft == 0 })
			w.env.settle()
			simrt.Sleep(200 * time.Millisecond)
		}
		if sg.GapUs > 0 {
			simrt.Sleep(time.Duration(sg.GapUs) * time.Microsecond)
		} else {
			simrt.Yield("typist.next")
		}
		w.env.chunkMode = sg.Chunk
		data := append(append([]byte(nil), sg.Bytes...), sentinelBytes(sg.Sentinel)...)
		w.env.send(data, 0)
		if sg.Well {
			w.res.Fault("well-formed-segment")
		} else {
			w.res.Fault("junk-segment")
		}
		w.sentAt = append(w.sentAt, w.s.Now())
	}
	w.env.settle()
	w.typed = true
}

func (w *inputWorld) querier(i int, q queryPlan) {
	simrt.Sleep(time.Duration(q.AtUs) * time.Microsecond)
	if w.pollStop {
		return
	}
	vx := w.vx
	t := w.env.term
	// reply policy for this one query: a dedicated kind->(delay,drop) entry
	kind := []string{"CPR", "OSC4", "OSC10", "OSC11", "OSC52"}[q.Kind]
	prev := w.env.replyDelay
	w.env.replyDelay = func(k string) (time.Duration, bool) {
		if k == kind {
			if q.Drop {
				return 0, true
			}
			if q.DelayUs > 5000 {
				w.res.Fault("reply-late")
			}
			return time.Duration(q.DelayUs) * time.Microsecond, false
		}
		return prev(k)
	}
	start := w.s.Now()
	switch q.Kind {
	case 0:
		wantR, wantC := t.R, t.C
		r, c := vx.CursorPosition()
		el := w.s.Now() - start
		w.res.Fault("query-cursor-position")
		switch {
		case r == -1 && c == -1:
			if at, ok := w.env.deliveredAt["CPR"]; ok && !q.Drop && at >= start && at-start < 40*time.Millisecond {
				w.res.Violate("query-answer", "vaxis.CursorPosition", "the terminal's answer reached the application %v after the query but CursorPosition reported a time-out after %v", at-start, el)
			}
			if !q.Drop {
				w.lateCPR++
			}
		case r == wantR && c == wantC:
		default:
			w.res.Violate("query-answer", "vaxis.CursorPosition", "CursorPosition returned (%d,%d), the terminal reported (%d,%d)", r, c, wantR, wantC)
		}
		if q.Drop && el > 10*time.Second {
			w.res.Violate("query-answer", "vaxis.CursorPosition", "CursorPosition with no reply took %v to return", el)
		}
	case 1:
		if !vx.CanReportColor() || q.Drop {
			return
		}
		idx := q.Arg
		got := vx.QueryColor(vaxis.IndexColor(uint8(idx)))
		v := t.Palette[idx]
		if want := vaxis.RGBColor(uint8(v>>16), uint8(v>>8), uint8(v)); got != want {
			w.res.Violate("query-answer", "vaxis.QueryColor", "QueryColor(index %d) returned %v, the terminal reported %06x", idx, got.Params(), v)
		}
		w.res.Fault("query-color")
	case 2:
		if !vx.CanReportForegroundColor() || q.Drop {
			return
		}
		got := vx.QueryForeground()
		v := t.FgColor
		if want := vaxis.RGBColor(uint8(v>>16), uint8(v>>8), uint8(v)); got != want {
			w.res.Violate("query-answer", "vaxis.QueryForeground", "QueryForeground returned %v, the terminal reported %06x", got.Params(), v)
		}
		w.res.Fault("query-color")
	case 3:
		if !vx.CanReportBackgroundColor() || q.Drop {
			return
		}
		got := vx.QueryBackground()
		v := t.BgColor
		if want := vaxis.RGBColor(uint8(v>>16), uint8(v>>8), uint8(v)); got != want {
			w.res.Violate("query-answer", "vaxis.QueryBackground", "QueryBackground returned %v, the terminal reported %06x", got.Params(), v)
		}
		w.res.Fault("query-color")
	case 4:
		if !w.caps.OSC52 {
			return
		}
		clip := fmt.Sprintf("clip-%d", i)
		t.Clipboard = clip
		ctx, cancel := context.WithTimeout(context.Background(), time.Duration(q.CtxUs)*time.Microsecond)
		got, err := vx.ClipboardPop(ctx)
		cancel()
		w.res.Fault("query-clipboard")
		if err == nil && got != clip {
			w.res.Violate("query-answer", "vaxis.ClipboardPop", "ClipboardPop returned %q, the clipboard holds %q", got, clip)
		}
		if err != nil {
			w.res.Fault("query-clipboard-timeout")
		}
		// let a late reply to the first request arrive (and be discarded),
		// change the clipboard, ask again: the answer must be the new content
		if !q.Drop {
			simrt.WaitUntil(w.env.idleBox, "querier.wait-reply", func() bool {
				at, ok := w.env.deliveredAt["OSC52"]
				return ok && at >= start
			})
		}
		simrt.Sleep(100 * time.Millisecond)
		clip2 := fmt.Sprintf("second-%d", i)
		t.Clipboard = clip2
		w.env.replyDelay = prev
		ctx2, cancel2 := context.WithTimeout(context.Background(), 5*time.Second)
		got2, err2 := vx.ClipboardPop(ctx2)
		cancel2()
		if err2 != nil || got2 != clip2 {
			w.res.Violate("query-answer", "vaxis.ClipboardPop", "second ClipboardPop returned %q (err=%v), the clipboard holds %q (the first request's reply arrived %d us after it, drop=%v, its context was %d us)", got2, err2, clip2, q.DelayUs, q.Drop, q.CtxUs)
		}
		_ = base64.StdEncoding
	}
}

// ------------------------------------------------------------------- oracle

func matchExp(e expEv, ev vaxis.Event, inPaste bool) string {
	switch e.Kind {
	case "key":
		k, ok := ev.(vaxis.Key)
		if !ok {
			return fmt.Sprintf("expected key %s, got %T %+v", e.Desc, ev, ev)
		}
		if !k.Matches(e.Rune, e.Mods) {
			return fmt.Sprintf("expected key %s (code %d mods %d), got %+v", e.Desc, e.Rune, e.Mods, k)
		}
		if k.EventType != e.Type {
			return fmt.Sprintf("key %s: event type %d, expected %d", e.Desc, k.EventType, e.Type)
		}
	case "pasted":
		k, ok := ev.(vaxis.Key)
		if !ok {
			return fmt.Sprintf("expected %s, got %T %+v", e.Desc, ev, ev)
		}
		if k.EventType != vaxis.EventPaste {
			return fmt.Sprintf("%s: key inside a paste not marked as pasted: %+v", e.Desc, k)
		}
	case "mouse":
		m, ok := ev.(vaxis.Mouse)
		if !ok {
			return fmt.Sprintf("expected %s, got %T %+v", e.Desc, ev, ev)
		}
		if m != e.Mouse {
			return fmt.Sprintf("expected %s, got %+v", e.Desc, m)
		}
	case "focus-in":
		if _, ok := ev.(vaxis.FocusIn); !ok {
			return fmt.Sprintf("expected FocusIn, got %T %+v", ev, ev)
		}
	case "focus-out":
		if _, ok := ev.(vaxis.FocusOut); !ok {
			return fmt.Sprintf("expected FocusOut, got %T %+v", ev, ev)
		}
	case "paste-start":
		if _, ok := ev.(vaxis.PasteStartEvent); !ok {
			return fmt.Sprintf("expected PasteStartEvent, got %T %+v", ev, ev)
		}
	case "paste-end":
		if _, ok := ev.(vaxis.PasteEndEvent); !ok {
			return fmt.Sprintf("expected PasteEndEvent, got %T %+v", ev, ev)
		}
	}
	return ""
}

func evString(ev vaxis.Event) string { return fmt.Sprintf("%T%+v", ev, ev) }

func (w *inputWorld) Finish(s *simrt.Sched, res *RunResult) {
	res.Nontrivial = len(w.segs) > 2
	res.EndState = fmt.Sprintf("%s events=%d last=%v", s.End, len(w.events), w.lastSent)
	for _, t := range s.Panics() {
		if _, ok := t.PanicVal.(simrt.InjectedPanic); ok {
			continue
		}
		site := simrt.PanicSite(t.PanicText)
		res.Violate("panic", site, "task %d/%s panicked: %s\ncase: %s\n%s", t.ID, t.Name, firstLine(t.PanicText), toJSON(w.Describe()), t.PanicText)
	}
	if w.vx == nil {
		return
	}
	if len(res.Violations) > 0 {
		return
	}
	// pasted text arrives grapheme by grapheme or rune by rune: expand the
	// expectation lazily while walking
	evs := w.events
	pos := 0
	// skip start-up leftovers (the initial Resize etc.) up to the first segment
	for si, sg := range w.segs {
		// find this segment's sentinel
		end := -1
		for j := pos; j < len(evs); j++ {
			if k, ok := evs[j].ev.(vaxis.Key); ok && k.Keycode == sg.Sentinel {
				end = j
				break
			}
		}
		if end < 0 {
			where := "input goroutine"
			pic := fmt.Sprint(s.Picture())
			res.Violate("input-stalled", where, "the sentinel key after segment %d (%v) never arrived although the application kept polling for 60 simulated seconds after the last byte; delivered so far %d events; tasks: %s\ncase: %s", si, sg.Desc, len(evs), pic, toJSON(w.Describe()))
			return
		}
		window := evs[pos:end]
		pos = end + 1
		if !sg.Well {
			continue
		}
		// drop events that are not user input (Redraw from resize reports, the initial Resize)
		var in []vaxis.Event
		for _, g := range window {
			if isInternalEvent(g.ev) {
				// an unexported bookkeeping event in the application's queue
				if w.known["internal-event-in-user-queue"] {
					res.Known("internal-event-in-user-queue", 1)
					continue
				}
				res.Violate("internal-event-leaked", "input goroutine", "segment %d: the application received the library-internal event %s in its event queue (a reply was not consumed internally)\ncase: %s", si, evString(g.ev), toJSON(w.Describe()))
				return
			}
			switch g.ev.(type) {
			case vaxis.Resize, vaxis.Redraw, vaxis.ColorThemeUpdate:
				if si == 0 {
					continue
				}
			}
			in = append(in, g.ev)
		}
		// a cursor-position reply that lost the race against its requester's
		// time-out is indistinguishable from a function key: tolerate as many
		// extra keys of that shape as there were such replies
		extra := w.lateCPR
		j := 0
		for ei := 0; ei < len(sg.Exp); ei++ {
			e := sg.Exp[ei]
			if e.Kind == "paste-body" {
				// every event up to the paste-end must be a key marked as
				// pasted; their text must add up to the pasted text
				text := ""
				for j < len(in) {
					k, ok := in[j].(vaxis.Key)
					if !ok {
						break
					}
					if k.EventType != vaxis.EventPaste {
						res.Violate("event-wrong", "input goroutine", "segment %d (%v): key inside a bracketed paste not marked as pasted: %+v\nevents between the sentinels: %v", si, sg.Desc, k, evStrings(in))
						return
					}
					text += k.Text
					j++
				}
				want := strings.NewReplacer("\t", "", "\r", "", "\n", "").Replace(e.Body)
				if text != want {
					res.Violate("event-wrong", "input goroutine", "segment %d (%v): pasted keys carry text %q, the paste was %q\nevents between the sentinels: %v", si, sg.Desc, text, e.Body, evStrings(in))
					return
				}
				continue
			}
			for {
				if j >= len(in) {
					res.Violate("event-missing", "input goroutine", "segment %d (%v): %s was not delivered (lost)\nevents between the sentinels: %v", si, sg.Desc, e.Desc, evStrings(in))
					return
				}
				msg := matchExp(e, in[j], false)
				if msg == "" {
					j++
					break
				}
				if k, ok := in[j].(vaxis.Key); ok && extra > 0 && (k.Keycode == vaxis.KeyF03 || k.Keycode == vaxis.KeyF01) {
					extra--
					j++
					continue
				}
				res.Violate("event-wrong", "input goroutine", "segment %d (%v): %s\nevents between the sentinels: %v", si, sg.Desc, msg, evStrings(in))
				return
			}
		}
		for ; j < len(in); j++ {
			if k, ok := in[j].(vaxis.Key); ok && extra > 0 && (k.Keycode == vaxis.KeyF03 || k.Keycode == vaxis.KeyF01) {
				extra--
				continue
			}
			res.Violate("event-extra", "input goroutine", "segment %d (%v): unexpected additional event %s (duplicated or invented)\nevents between the sentinels: %v", si, sg.Desc, evString(in[j]), evStrings(in))
			return
		}
	}
}

func evStrings(in []vaxis.Event) []string {
	var out []string
	for _, e := range in {
		out = append(out, evString(e))
	}
	return out
}
