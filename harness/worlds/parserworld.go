package worlds

import (
	"errors"
	"fmt"
	"io"
	"reflect"
	"strings"
	"time"
	"unicode/utf8"

	"git.sr.ht/~rockorager/vaxis/ansi"
	"git.sr.ht/~rockorager/vaxis/simrt"
	"github.com/rivo/uniseg"

	"simharness/simterm"
)

// ---------------------------------------------------------------- sim reader

type rchunk struct {
	data   []byte
	arrive time.Duration
	end    int // stream offset after this chunk
}

// simReader is the io.Reader handed to ansi.NewParser. Each Read returns at
// most one chunk, so chunk boundaries are read boundaries.
type simReader struct {
	s        *simrt.Sched
	queue    []rchunk
	cur      []byte
	curArr   time.Duration
	ended    bool
	endErr   error
	withData bool // deliver the error together with the last data (n>0, err)
	off      int
	bounds   map[int]bool          // stream offsets at which a Read returned
	readAt   map[int]time.Duration // chunk end offset -> time its first byte was read
	arriveAt map[int]time.Duration // chunk end offset -> arrival time
	waitedAt map[int]bool          // chunk end offset -> the Read was already waiting when it arrived
	nextCall map[int]time.Duration // stream offset -> time of the first Read call made after everything before it was consumed
	waiting  bool
	eofRead  time.Duration
	eofSeen  bool
	reads    int
}

func newSimReader(s *simrt.Sched) *simReader {
	return &simReader{s: s, bounds: map[int]bool{}, readAt: map[int]time.Duration{}, arriveAt: map[int]time.Duration{}, waitedAt: map[int]bool{}, nextCall: map[int]time.Duration{}}
}

func (r *simReader) SimName() string { return "reader" }

func (r *simReader) push(data []byte, end int) {
	r.queue = append(r.queue, rchunk{data: data, arrive: r.s.Now(), end: end})
	r.arriveAt[end] = r.s.Now()
	if r.waiting {
		r.waitedAt[end] = true
	}
	simrt.Notify(r)
}

func (r *simReader) finish(err error, withData bool) {
	r.ended = true
	r.endErr = err
	r.withData = withData
	simrt.Notify(r)
}

func (r *simReader) Read(p []byte) (int, error) {
	r.reads++
	if len(r.cur) == 0 {
		if _, ok := r.nextCall[r.off]; !ok {
			// the parser has finished with everything up to r.off
			r.nextCall[r.off] = r.s.Now()
		}
	}
	if len(r.cur) == 0 && len(r.queue) == 0 && !r.ended {
		r.waiting = true
		simrt.WaitUntil(r, "reader.Read", func() bool { return len(r.queue) > 0 || r.ended })
		r.waiting = false
	} else {
		simrt.Yield("reader.Read")
	}
	if len(r.cur) == 0 && len(r.queue) > 0 {
		c := r.queue[0]
		r.queue = r.queue[1:]
		r.cur = c.data
		r.readAt[c.end] = r.s.Now()
	}
	if len(r.cur) > 0 {
		n := copy(p, r.cur)
		r.cur = r.cur[n:]
		r.off += n
		r.bounds[r.off] = true
		if len(r.cur) == 0 && len(r.queue) == 0 && r.ended && r.withData {
			r.eofSeen, r.eofRead = true, r.s.Now()
			return n, r.endErr
		}
		return n, nil
	}
	r.eofSeen, r.eofRead = true, r.s.Now()
	return 0, r.endErr
}

// -------------------------------------------------------------- parser case

type pchunk struct {
	GapUs int64  `json:"gap_us"`
	Data  []byte `json:"data"`
}

type parserCase struct {
	Mode       string   `json:"mode"` // "conform" (C02) or "life" (C08)
	ParserStall int     `json:"parser_stall_1_in,omitempty"`
	Stream     string   `json:"stream"`
	Chunks     []pchunk `json:"chunks"`
	EndKind    int      `json:"end_kind"` // 0 EOF, 1 error, 2 (n>0,err), 3 Close() then nudge
	EndGapUs   int64    `json:"end_gap_us"`
	CutAt      int      `json:"cut_at"`   // stream truncated to this many bytes (-1: not cut)
	Consumer   int      `json:"consumer"` // 0 prompt+finish, 1 prompt+retain, 2 slow, 3 one long stall, 4 stops reading, 5 mixed finish
	ConsDelay  int64    `json:"cons_delay_us"`
	StallAfter int      `json:"stall_after"`
	StallUs    int64    `json:"stall_us"`
	CloseAfter int      `json:"close_after"` // EndKind 3: Close() after this many items were consumed
	NudgeEOF   bool     `json:"nudge_eof"`
}

type pitem struct {
	seq      ansi.Sequence
	copy     ansi.Sequence
	at       time.Duration
	finished bool
}

type parserWorld struct {
	prop string
	c    parserCase
	s    *simrt.Sched
	res  *RunResult
	rd   *simReader
	p    *ansi.Parser

	items        []*pitem
	chanClosed   bool
	consumerDone bool
	waitReturned bool
	feederDone   bool
	closeCalled  time.Duration
	closeDone    bool
	deadline     bool
	aliasErr     string
	stopped      bool
	known        map[string]bool
}

func init() {
	Register("C08", func() World { return &parserWorld{prop: "C08"} })
	Register("C02", func() World { return &parserWorld{prop: "C02"} })
}

func (w *parserWorld) SimName() string { return "parserWorld" }

func (w *parserWorld) Describe() any {
	d := map[string]any{
		"mode": w.c.Mode, "stream": fmt.Sprintf("%q", w.c.Stream), "end_kind": w.c.EndKind, "end_gap_us": w.c.EndGapUs,
		"consumer": w.c.Consumer, "cut_at": w.c.CutAt,
	}
	var ch []string
	for _, c := range w.c.Chunks {
		ch = append(ch, fmt.Sprintf("+%dus %q", c.GapUs, string(c.Data)))
	}
	d["chunks"] = ch
	if w.c.EndKind == 3 {
		d["close_after_items"] = w.c.CloseAfter
	}
	return d
}

func (w *parserWorld) Build(t *simrt.Tape, spec RunSpec) {
	c := &w.c
	w.known = knownSet(spec)
	c.CutAt = -1
	var data []byte
	if w.prop == "C02" {
		c.Mode = "conform"
		kind := t.Draw(10)
		switch {
		case spec.Opts["walk"] != "":
			// systematic class-string walk: the run index enumerates all
			// strings of the given length over the class representatives
			ln := optInt(spec.Opts, "walk", 1)
			data = genClassString(uint64(spec.Index-optInt(spec.Opts, "base", 0)), ln)
		case kind < 3:
			data = genClassString(uint64(t.Draw(1<<30))*uint64(1+t.Draw(1<<20)), 1+t.Draw(6))
		case kind < 9:
			data = genStream(t, 1)
		default:
			data = genStream(t, 2)
		}
		for _, ch := range chunkStream(t, data) {
			c.Chunks = append(c.Chunks, pchunk{Data: ch})
		}
		c.Stream = string(data)
		c.Consumer = t.Draw(2)
		return
	}
	c.Mode = "life"
	if t.Draw(5) == 0 {
		data = genStream(t, 2)
	} else {
		data = genStream(t, 1)
	}
	// lone / trailing ESC material
	if t.Draw(3) == 0 {
		data = append(data, 0x1b)
	}
	c.EndKind = t.Draw(4)
	if t.Draw(3) == 0 && len(data) > 0 {
		c.CutAt = t.Draw(len(data) + 1)
		data = data[:c.CutAt]
	}
	if v := spec.Opts["sweepk"]; v != "" {
		// end of input at every byte offset of the same generated stream
		k := optInt(spec.Opts, "sweepk", 0)
		if c.CutAt >= 0 {
			// undo the random cut: the sweep decides
		}
		if k <= len(data) {
			c.CutAt = k
			data = data[:k]
		}
		c.EndKind = k % 3
	}
	c.Stream = string(data)
	chunks := chunkStream(t, data)
	// ESC bytes are worth isolating at chunk ends: split after some of them
	var split [][]byte
	for _, ch := range chunks {
		for {
			i := indexESC(ch)
			if i < 0 || i == len(ch)-1 || t.Draw(2) == 0 {
				break
			}
			split = append(split, ch[:i+1])
			ch = ch[i+1:]
		}
		split = append(split, ch)
	}
	gapMode := t.Draw(4) // 0 all zero, 1 mostly zero, 2 grid, 3 around the timer
	for i, ch := range split {
		var g int64
		if i > 0 || t.Draw(2) == 0 {
			switch gapMode {
			case 1:
				if t.Draw(4) == 0 {
					g = drawGrid(t, 5_000_000)
				}
			case 2:
				g = drawGrid(t, 5_000_000)
			case 3:
				g = []int64{0, 9000, 10000, 11000, 1_000_000, 2_000_000, 0, 10000}[t.Draw(8)]
			}
		}
		c.Chunks = append(c.Chunks, pchunk{GapUs: g, Data: ch})
	}
	switch t.Draw(4) {
	case 0:
		c.EndGapUs = 0
	case 1:
		c.EndGapUs = []int64{9000, 10000, 11000}[t.Draw(3)]
	default:
		c.EndGapUs = drawGrid(t, 5_000_000)
	}
	c.Consumer = t.Draw(6)
	c.ConsDelay = drawGrid(t, 2_000_000)
	c.StallAfter = t.Draw(6)
	c.StallUs = []int64{1_000_000, 3_000_000, 10_000_000}[t.Draw(3)]
	c.CloseAfter = t.Draw(8)
	c.NudgeEOF = t.Draw(2) == 0
	// stall fault: the parser's own goroutine is descheduled for up to 70
	// simulated ms at some of its scheduling points (a loaded machine)
	c.ParserStall = []int{0, 0, 0, 40, 12}[t.Draw(5)]
}

func indexESC(b []byte) int {
	for i, c := range b {
		if c == 0x1b {
			return i
		}
	}
	return -1
}

var errSimRead = errors.New("simulated read error")

func (w *parserWorld) Start(s *simrt.Sched, res *RunResult) {
	w.s, w.res = s, res
	s.MaxSteps = 60000
	w.rd = newSimReader(s)
	c := &w.c
	if c.ParserStall > 0 {
		s.StallOneIn, s.StallMax, s.StallLib = c.ParserStall, 4, true
		s.StallOK = func(t *simrt.Task) bool { return t.Lib && !strings.HasPrefix(t.Name, "timer:") }
	}
	s.Go("main", func() {
		w.p = ansi.NewParser(w.rd)
		s.Go("consumer", w.consumer)
		s.Go("waiter", func() {
			w.p.WaitClose()
			w.waitReturned = true
			simrt.Notify(w)
		})
		s.Go("feeder", w.feeder)
		var total time.Duration
		for _, ch := range c.Chunks {
			total += time.Duration(ch.GapUs) * time.Microsecond
		}
		total += time.Duration(c.EndGapUs) * time.Microsecond
		// a slow consumer legitimately needs its delay per delivered item
		total += time.Duration(len(c.Stream)+8)*time.Duration(c.ConsDelay)*time.Microsecond + time.Duration(c.StallUs)*time.Microsecond
		s.MaxTime = total + 30*time.Minute
		s.Go("deadline", func() {
			simrt.Sleep(total + 120*time.Second)
			w.deadline = true
			simrt.Notify(w)
		})
		simrt.WaitUntil(w, "main.wait", func() bool {
			return w.deadline || (w.consumerDone && w.waitReturned && w.feederDone)
		})
		// let a late timer callback run (it must not do anything any more)
		simrt.Sleep(5 * time.Second)
		s.Finish()
	})
	if len(c.Chunks) > 1 {
		res.Fault("read-chunking")
	}
}

func (w *parserWorld) feeder() {
	c := &w.c
	off := 0
	for _, ch := range c.Chunks {
		if ch.GapUs > 0 {
			simrt.Sleep(time.Duration(ch.GapUs) * time.Microsecond)
			w.res.Fault("arrival-gap")
		} else if c.Mode == "life" {
			simrt.Yield("feeder.next")
		}
		off += len(ch.Data)
		w.rd.push(ch.Data, off)
	}
	if c.EndGapUs > 0 {
		simrt.Sleep(time.Duration(c.EndGapUs) * time.Microsecond)
	}
	switch c.EndKind {
	case 0:
		w.rd.finish(io.EOF, false)
		w.res.Fault("eof-at-offset")
	case 1:
		w.rd.finish(errSimRead, false)
		w.res.Fault("read-error")
	case 2:
		w.rd.finish(errSimRead, true)
		w.res.Fault("read-error-with-data")
	case 3:
		// Close() mid-stream: wait until enough items were consumed (or
		// nothing more will come), call Close, then make the reader return.
		fedAt := w.s.Now()
		w.s.Go("closer-timer", func() {
			simrt.Sleep(2 * time.Second)
			simrt.Notify(w)
		})
		simrt.WaitUntil(w, "closer.wait", func() bool {
			return len(w.items) >= c.CloseAfter || w.deadline || w.stopped || w.s.Now()-fedAt >= 2*time.Second
		})
		w.closeCalled = w.s.Now()
		w.p.Close()
		w.closeDone = true
		w.res.Fault("close-midstream")
		simrt.Sleep(time.Millisecond)
		if c.NudgeEOF {
			w.rd.finish(io.EOF, false)
		} else {
			// the reader returns once more and then stays open and silent:
			// only Close() may stop the parser. What it returns may end in
			// the middle of a multi-byte character or of a sequence
			nudges := []string{"\x1b[?1;2c", "\x1b[A\xe2", "x\xf0\x9f", "\x1b[?1;2c\xc3", "a", "\x1b[A\x1b["}
			nd := nudges[w.s.Tape.Draw(len(nudges))]
			w.rd.push([]byte(nd), off+len(nd))
		}
	}
	w.feederDone = true
	simrt.Notify(w)
}

func deepCopySeq(seq ansi.Sequence) ansi.Sequence {
	switch v := seq.(type) {
	case ansi.CSI:
		c := ansi.CSI{Final: v.Final}
		if v.Intermediate != nil {
			c.Intermediate = append([]rune{}, v.Intermediate...)
		}
		if v.Parameters != nil {
			c.Parameters = make([][]int, len(v.Parameters))
			for i, p := range v.Parameters {
				c.Parameters[i] = append([]int{}, p...)
			}
		}
		return c
	case ansi.ESC:
		c := ansi.ESC{Final: v.Final}
		if v.Intermediate != nil {
			c.Intermediate = append([]rune{}, v.Intermediate...)
		}
		return c
	case ansi.OSC:
		return ansi.OSC{Payload: append([]rune{}, v.Payload...)}
	case ansi.DCS:
		c := ansi.DCS{Final: v.Final}
		if v.Intermediate != nil {
			c.Intermediate = append([]rune{}, v.Intermediate...)
		}
		if v.Parameters != nil {
			c.Parameters = append([]int{}, v.Parameters...)
		}
		c.Data = append([]rune{}, v.Data...)
		return c
	}
	return seq
}

func seqEqual(a, b ansi.Sequence) bool {
	if _, ok := a.(error); ok {
		return true
	}
	return seqString(a) == seqString(b) && reflect.TypeOf(a) == reflect.TypeOf(b)
}

func (w *parserWorld) checkAlias() {
	if w.aliasErr != "" {
		return
	}
	for i, it := range w.items {
		if it.finished {
			continue
		}
		if !seqEqual(it.seq, it.copy) {
			w.aliasErr = fmt.Sprintf("item %d delivered as %v was later modified to %v (not handed back)", i, it.copy, it.seq)
			return
		}
	}
}

func (w *parserWorld) consumer() {
	c := &w.c
	n := 0
	for {
		seq, ok := simrt.Recv2(w.p.Next(), "consumer.recv")
		if !ok {
			w.chanClosed = true
			break
		}
		it := &pitem{seq: seq, copy: deepCopySeq(seq), at: w.s.Now()}
		w.items = append(w.items, it)
		w.checkAlias()
		n++
		simrt.Notify(w)
		switch c.Consumer {
		case 0:
			w.p.Finish(seq)
			it.finished = true
		case 1:
			w.res.Probe("consumer-retains")
		case 2:
			if c.ConsDelay > 0 {
				simrt.Sleep(time.Duration(c.ConsDelay) * time.Microsecond)
				w.res.Fault("slow-consumer")
			}
			w.p.Finish(seq)
			it.finished = true
		case 3:
			if n == c.StallAfter+1 {
				simrt.Sleep(time.Duration(c.StallUs) * time.Microsecond)
				w.res.Fault("consumer-stall")
			}
		case 4:
			if n == c.StallAfter+1 {
				w.res.Fault("consumer-stops-reading")
				w.stopped = true
				w.consumerDone = true
				simrt.Notify(w)
				return
			}
		case 5:
			// hand back every other item, late
			if n%2 == 0 && len(w.items) >= 2 {
				old := w.items[len(w.items)-2]
				if !old.finished {
					w.p.Finish(old.seq)
					old.finished = true
				}
			}
		}
	}
	w.consumerDone = true
	simrt.Notify(w)
}

// ------------------------------------------------------------------- oracle

func (w *parserWorld) Finish(s *simrt.Sched, res *RunResult) {
	res.FaultN("parser-goroutine-stalled", s.Stalls)
	c := &w.c
	taskPanics(s, res, "panic")
	res.Nontrivial = len(c.Chunks) > 1 || c.Consumer >= 2 || c.EndKind != 0
	res.EndState = fmt.Sprintf("items=%d closed=%v wait=%v end=%s", len(w.items), w.chanClosed, w.waitReturned, s.End)
	if s.End == simrt.EndStepLimit || s.End == simrt.EndTimeLimit {
		// the run was cut by the simulator's own budget: nothing can be
		// concluded about liveness from it
		res.Diag = append(res.Diag, "run cut by the simulator budget: "+s.End)
		res.Inconclusive++
		return
	}
	w.checkAlias()
	if w.aliasErr != "" {
		res.Violate("aliasing", "ansi.Parser", "%s", w.aliasErr)
	}
	// lifecycle: exactly one EOF marker, last, channel closed, WaitClose returns
	eofs := 0
	for i, it := range w.items {
		if _, ok := it.seq.(ansi.EOF); ok {
			eofs++
			if i != len(w.items)-1 {
				res.Violate("eof-not-last", "ansi.Parser", "EOF marker is item %d of %d; later items: %v", i, len(w.items), seqStrings(w.items[i+1:]))
			}
		}
	}
	if eofs > 1 {
		res.Violate("eof-duplicated", "ansi.Parser", "%d EOF markers delivered", eofs)
	}
	consumerReads := !w.stopped
	mustStop := consumerReads && (c.EndKind != 3 || w.closeDone)
	if c.EndKind == 3 && !w.closeDone && !w.deadline {
		mustStop = false
	}
	if mustStop && consumerReads {
		if c.EndKind == 3 && !w.closeDone {
			// Close() itself never returned
			res.Violate("close-hangs", "ansi.Parser.Close", "Close() did not return: %v", s.Picture())
		} else if !w.chanClosed || eofs != 1 || !w.waitReturned {
			res.Violate("no-clean-stop", "ansi.Parser", "reader ended (kind %d) and the consumer kept reading, but eof markers=%d channel closed=%v WaitClose returned=%v after 120 s; tasks: %v; items: %v",
				c.EndKind, eofs, w.chanClosed, w.waitReturned, s.Picture(), seqStrings(w.items))
		}
	}
	if c.EndKind == 3 || w.stopped {
		return
	}
	w.conformance(res)
}

func seqStrings(items []*pitem) []string {
	var out []string
	for _, it := range items {
		out = append(out, seqString(it.copy))
	}
	return out
}

func seqString(s ansi.Sequence) string {
	switch v := s.(type) {
	case ansi.Print:
		return fmt.Sprintf("Print(%q,w=%d)", v.Grapheme, v.Width)
	case ansi.C0:
		return fmt.Sprintf("C0(%#x)", rune(v))
	case ansi.SS3:
		return fmt.Sprintf("SS3(%q)", rune(v))
	case ansi.ESC:
		return fmt.Sprintf("ESC(%q %q)", string(v.Intermediate), v.Final)
	case ansi.CSI:
		return fmt.Sprintf("CSI(%q %v %q)", string(v.Intermediate), v.Parameters, v.Final)
	case ansi.OSC:
		return fmt.Sprintf("OSC(%q)", string(v.Payload))
	case ansi.DCS:
		return fmt.Sprintf("DCS(%q %v %q %q)", string(v.Intermediate), v.Parameters, v.Final, string(v.Data))
	case ansi.APC:
		return fmt.Sprintf("APC(%q)", v.Data)
	case ansi.EOF:
		return "EOF"
	case error:
		return "error(" + v.Error() + ")"
	}
	return fmt.Sprintf("%T", s)
}

// EscapeDelay is the calibrated disambiguation delay (time from a lone ESC to
// its report), measured once per process by CalibrateEscape.
var EscapeDelay = 10 * time.Millisecond

// conformance compares the delivered items with the reference automaton.
func (w *parserWorld) conformance(res *RunResult) {
	c := &w.c
	type gapInfo struct {
		kind int // 0 prompt, 1 silent, 2 ambiguous
	}
	// classify the gap that follows each chunk
	n := len(c.Chunks)
	gaps := make([]gapInfo, n)
	off := 0
	ends := make([]int, n)
	for i, ch := range c.Chunks {
		off += len(ch.Data)
		ends[i] = off
	}
	for i := range c.Chunks {
		var g int64
		if i+1 < n {
			g = c.Chunks[i+1].GapUs
		} else {
			g = c.EndGapUs
		}
		switch {
		case g == 0 && w.s.Stalls == 0:
			gaps[i].kind = 0
		case g == 0:
			// the parser's goroutine was frozen at some point of this run:
			// when an ESC ends a read, the bytes that follow at once may
			// still be read only after the disambiguation delay, which the
			// parser cannot tell from a late arrival - either outcome is
			// accepted at a read boundary (never inside one read)
			gaps[i].kind = 2
		case time.Duration(g)*time.Microsecond >= 100*EscapeDelay &&
			w.rd.readAt[ends[i]] == w.rd.arriveAt[ends[i]] && w.rd.nextCall[ends[i]] == w.rd.arriveAt[ends[i]]:
			gaps[i].kind = 1
		default:
			gaps[i].kind = 2
		}
	}
	var alts [][]simterm.Item
	amb := 0
	var walk func(i int, p *simterm.Parser, acc []simterm.Item)
	walk = func(i int, p *simterm.Parser, acc []simterm.Item) {
		if len(alts) > 64 {
			return
		}
		if i == n {
			acc = append(acc, p.Flush()...)
			alts = append(alts, acc)
			return
		}
		acc = append(acc, p.Feed(c.Chunks[i].Data)...)
		if !p.InEscape() {
			walk(i+1, p, acc)
			return
		}
		switch gaps[i].kind {
		case 0:
			res.Probe("esc-then-prompt")
			walk(i+1, p, acc)
		case 1:
			res.Probe("esc-then-silence")
			acc = append(acc, p.Timeout()...)
			walk(i+1, p, acc)
		default:
			amb++
			res.Probe("esc-gap-ambiguous")
			q := p.Clone()
			a2 := append([]simterm.Item(nil), acc...)
			walk(i+1, p, acc)
			a2 = append(a2, q.Timeout()...)
			walk(i+1, q, a2)
		}
	}
	p0 := simterm.NewParser()
	p0.KnownEmptyStringST = w.known["empty-string-st"]
	walk(0, p0, nil)
	if len(alts) > 64 {
		res.Inconclusive++
		return
	}
	var actual []ansi.Sequence
	for _, it := range w.items {
		actual = append(actual, it.copy)
	}
	var firstErr string
	var bestRef []simterm.Item
	best := -1
	for _, ref := range alts {
		knownHits = map[string]int{}
		err, matched := compareItems(actual, ref, w.rd.bounds, c.EndKind)
		if err == "" {
			for k, v := range knownHits {
				res.Known(k, v)
			}
			return
		}
		if matched > best {
			best, firstErr, bestRef = matched, err, ref
		}
	}
	oracle := "conformance"
	site := "ansi.Parser"
	res.Violate(oracle, site, "%s\nstream=%q\nactual=%v\nclosest expected (of %d)=%v", firstErr, c.Stream, seqStrings(w.items), len(alts), refStrings(bestRef))
}

func refStrings(items []simterm.Item) []string {
	var out []string
	for _, it := range items {
		out = append(out, refString(it))
	}
	return out
}

func refString(it simterm.Item) string {
	opt := ""
	if it.Optional {
		opt = "?"
	}
	switch it.Kind {
	case simterm.KText:
		return fmt.Sprintf("Text(%q)", it.Rune)
	case simterm.KC0:
		return fmt.Sprintf("C0(%#x)", it.Rune)
	case simterm.KSS3:
		return fmt.Sprintf("SS3(%q)", it.Rune)
	case simterm.KESC:
		return fmt.Sprintf("ESC%s(%q %q)", opt, string(it.Inter), rune(it.Final))
	case simterm.KCSI:
		return fmt.Sprintf("CSI(%q %v %q)", string(it.Inter), it.Params, rune(it.Final))
	case simterm.KOSC:
		return fmt.Sprintf("OSC%s(%q)", opt, string(it.Data))
	case simterm.KDCS:
		return fmt.Sprintf("DCS%s(%q %v %q %q)", opt, string(it.Inter), it.Params, rune(it.Final), string(it.Data))
	case simterm.KAPC:
		return fmt.Sprintf("APC%s(%q)", opt, string(it.Data))
	case simterm.KTaint:
		return "TAINT"
	}
	return "?"
}

func runesOf(b []byte) []rune {
	out := make([]rune, len(b))
	for i, c := range b {
		out[i] = rune(c)
	}
	return out
}

func paramsEqual(ref [][]int, act [][]int) bool {
	if len(ref) == 0 && len(act) == 0 {
		return true
	}
	if len(ref) != len(act) {
		// a parser may keep only the first 16 parameters
		if len(ref) > 16 && len(act) == 16 {
			ref = ref[:16]
		} else {
			return false
		}
	}
	for i := range ref {
		if len(ref[i]) != len(act[i]) {
			return false
		}
		for j := range ref[i] {
			if ref[i][j] != act[i][j] {
				return false
			}
		}
	}
	return true
}

func matchNonText(ref simterm.Item, a ansi.Sequence) bool {
	switch ref.Kind {
	case simterm.KC0:
		v, ok := a.(ansi.C0)
		return ok && rune(v) == ref.Rune
	case simterm.KSS3:
		v, ok := a.(ansi.SS3)
		return ok && rune(v) == ref.Rune
	case simterm.KESC:
		v, ok := a.(ansi.ESC)
		return ok && v.Final == rune(ref.Final) && string(v.Intermediate) == string(runesOf(ref.Inter))
	case simterm.KCSI:
		v, ok := a.(ansi.CSI)
		return ok && v.Final == rune(ref.Final) && string(v.Intermediate) == string(runesOf(ref.Inter)) && paramsEqual(ref.Params, v.Parameters)
	case simterm.KOSC:
		v, ok := a.(ansi.OSC)
		return ok && string(v.Payload) == string(ref.Data)
	case simterm.KAPC:
		v, ok := a.(ansi.APC)
		return ok && v.Data == string(ref.Data)
	case simterm.KDCS:
		v, ok := a.(ansi.DCS)
		if !ok || v.Final != rune(ref.Final) || string(v.Intermediate) != string(runesOf(ref.Inter)) || string(v.Data) != string(ref.Data) {
			return false
		}
		var p [][]int
		for _, x := range v.Parameters {
			p = append(p, []int{x})
		}
		return paramsEqual(ref.Params, p)
	}
	return false
}

var knownHits map[string]int

func shiftBounds(b map[int]bool) map[int]bool { return b }

// compareItems checks delivered items against one reference outcome. It
// returns "" when they agree.
func compareItems(actual []ansi.Sequence, ref []simterm.Item, bounds map[int]bool, endKind int) (string, int) {
	ai := 0
	err := compareItems1(actual, ref, bounds, endKind, &ai)
	return err, ai
}

func compareItems1(actual []ansi.Sequence, ref []simterm.Item, bounds map[int]bool, endKind int, aip *int) string {
	// drop diagnostics
	var act []ansi.Sequence
	for _, a := range actual {
		if _, ok := a.(error); ok {
			continue
		}
		act = append(act, a)
	}
	ai := 0
	defer func() { *aip = ai }()
	ri := 0
	for ri < len(ref) {
		r := ref[ri]
		switch {
		case r.Kind == simterm.KTaint:
			// nothing is prescribed until the next CAN/SUB
			ri++
			for ri < len(ref) && !(ref[ri].Kind == simterm.KC0 && (ref[ri].Rune == 0x18 || ref[ri].Rune == 0x1a)) {
				ri++
			}
			if ri == len(ref) {
				return "" // tainted to the end
			}
			for ai < len(act) {
				if v, ok := act[ai].(ansi.C0); ok && rune(v) == ref[ri].Rune {
					break
				}
				ai++
			}
			if ai == len(act) {
				return fmt.Sprintf("after an undefined region the resynchronising %s was not delivered", refString(ref[ri]))
			}
			ai++
			ri++
		case r.Kind == simterm.KText:
			// collect the text run
			rj := ri
			for rj < len(ref) && ref[rj].Kind == simterm.KText && (rj == ri || ref[rj].Off == ref[rj-1].End) {
				rj++
			}
			run := ref[ri:rj]
			var text strings.Builder
			offs := make([]int, 0, len(run)+1) // stream offset of each rune
			byteOffs := []int{}                // byte offset in text of each rune
			for _, t := range run {
				byteOffs = append(byteOffs, text.Len())
				text.WriteRune(t.Rune)
				offs = append(offs, t.Off)
			}
			T := text.String()
			pos := 0
			for pos < len(T) {
				if ai >= len(act) {
					return fmt.Sprintf("text %q: delivery stopped after %q", T, T[:pos])
				}
				p, ok := act[ai].(ansi.Print)
				if !ok {
					return fmt.Sprintf("text %q: expected a Print continuing %q, got %s", T, T[pos:], seqString(act[ai]))
				}
				cluster, _, _, _ := uniseg.FirstGraphemeClusterInString(T[pos:], -1)
				g := p.Grapheme
				switch {
				case g == cluster:
				case g != "" && strings.HasPrefix(cluster, g):
					// a piece: must end at a read boundary
					endByte := pos + len(g)
					so := -1
					rawAdj := false
					for k, bo := range byteOffs {
						if bo == endByte {
							so = offs[k]
							// how a raw invalid byte clusters with its
							// neighbours is not defined: a split next to
							// one is accepted
							rawAdj = run[k].Raw || (k > 0 && run[k-1].Raw)
						}
					}
					if rawAdj {
						so = -2
					}
					// at a read boundary, or in front of the character the
					// read boundary cuts in two (the pieces can only be
					// separated between characters)
					atBoundary := so >= 0 && bounds[so]
					if so >= 0 && !atBoundary {
						_, sz := utf8.DecodeRuneInString(T[endByte:])
						for j := 1; j < sz; j++ {
							if bounds[so+j] {
								atBoundary = true
							}
						}
					}
					if so != -2 && !atBoundary {
						return fmt.Sprintf("text %q: Print(%q) splits grapheme cluster %q away from any read boundary", T, g, cluster)
					}
				default:
					return fmt.Sprintf("text %q at byte %d: expected cluster %q, got Print(%q)", T, pos, cluster, g)
				}
				if want := uniseg.StringWidth(g); p.Width != want {
					return fmt.Sprintf("Print(%q) carries width %d, its display width is %d", g, p.Width, want)
				}
				pos += len(g)
				ai++
			}
			ri = rj
		default:
			if ai < len(act) && matchNonText(r, act[ai]) {
				if r.Optional {
					// an optional item that matches may still have to be
					// skipped (the delivered item may be the next
					// mandatory one): try skipping first on a copy
					saved := map[string]int{}
					for k, v := range knownHits {
						saved[k] = v
					}
					sub := 0
					if e := compareItems1(act[ai:], ref[ri+1:], shiftBounds(bounds), endKind, &sub); e == "" {
						ai = len(act)
						return ""
					}
					knownHits = saved
				}
				if r.Known != "" {
					knownHits[r.Known]++
				}
				ai++
				ri++
				continue
			}
			if r.Optional {
				ri++
				continue
			}
			got := "end of items"
			if ai < len(act) {
				got = seqString(act[ai])
			}
			tag := ""
			if r.Kind == simterm.KC0 && r.Rune == 0x1b {
				tag = "[escape] "
			} else if ai < len(act) {
				if v, ok := act[ai].(ansi.C0); ok && rune(v) == 0x1b {
					tag = "[escape] "
				}
			}
			return fmt.Sprintf("%sitem %d: expected %s, got %s", tag, ai, refString(r), got)
		}
	}
	// what may follow: an optional partial control string flushed at end of
	// input, then exactly the EOF marker
	for ai < len(act) {
		switch v := act[ai].(type) {
		case ansi.EOF:
			if ai != len(act)-1 {
				return "items after EOF"
			}
			return ""
		case ansi.OSC, ansi.DCS, ansi.APC:
			if ai == len(act)-2 {
				ai++
				continue
			}
			return fmt.Sprintf("unexpected extra item %s", seqString(v))
		case ansi.C0:
			if rune(v) == 0x1b {
				return fmt.Sprintf("[escape] unexpected extra item %s", seqString(v))
			}
			return fmt.Sprintf("unexpected extra item %s", seqString(v))
		default:
			return fmt.Sprintf("unexpected extra item %s", seqString(v))
		}
	}
	return ""
}
