package worlds

import (
	"fmt"
	"github.com/rivo/uniseg"
	"io"
	"os/exec"
	"strings"
	"time"

	"git.sr.ht/~rockorager/vaxis"
	"git.sr.ht/~rockorager/vaxis/simrt"
	"git.sr.ht/~rockorager/vaxis/widgets/term"

	"simharness/simterm"
)

// ------------------------------------------------------------------ sim PTY

// simPTY stands in for the pseudo terminal of widgets/term (simgen rule R11):
// the widget's own StartWithSize body, parser and goroutine loop run against it.
type simPTY struct {
	s       *simrt.Sched
	toEmu   [][]byte // child -> emulator
	cur     []byte
	fromEmu []byte // emulator -> child (replies, forwarded input)
	closed  bool
	cols    int
	rows    int
	reads   int
	waiting bool
	writes  int
	onWrite func()
}

func (p *simPTY) SimName() string { return "pty" }

func (p *simPTY) Read(b []byte) (int, error) {
	p.reads++
	if len(p.cur) == 0 && len(p.toEmu) == 0 && !p.closed {
		p.waiting = true
		simrt.Notify(p)
		simrt.WaitUntil(p, "pty.Read", func() bool { return len(p.toEmu) > 0 || p.closed })
		p.waiting = false
	} else {
		simrt.Yield("pty.Read")
	}
	if len(p.cur) == 0 && len(p.toEmu) > 0 {
		p.cur = p.toEmu[0]
		p.toEmu = p.toEmu[1:]
	}
	if len(p.cur) > 0 {
		n := copy(b, p.cur)
		p.cur = p.cur[n:]
		return n, nil
	}
	return 0, io.EOF
}

func (p *simPTY) Write(b []byte) (int, error) {
	simrt.Yield("pty.Write")
	if p.closed {
		return 0, io.ErrClosedPipe
	}
	p.writes++
	p.fromEmu = append(p.fromEmu, b...)
	simrt.Notify(p)
	return len(b), nil
}

func (p *simPTY) WriteString(s string) (int, error) { return p.Write([]byte(s)) }

func (p *simPTY) Close() error {
	p.closed = true
	simrt.Notify(p)
	return nil
}

func (p *simPTY) Setsize(cols, rows int) { p.cols, p.rows = cols, rows }

// feed hands a chunk of child output to the emulator.
func (p *simPTY) feed(b []byte) {
	if len(b) == 0 {
		return
	}
	p.toEmu = append(p.toEmu, append([]byte(nil), b...))
	simrt.Notify(p)
}

// ---------------------------------------------------------------- term world

type termOp struct {
	Bytes  string
	Desc   string
	Resize [2]int // rows, cols (C05): the host draws the widget into a window of this size
	Chunk  int
	GapUs  int64
}

type termWorld struct {
	prop string
	s    *simrt.Sched
	res  *RunResult
	rows int
	cols int
	ops  []termOp

	withHost bool
	handler  int // 0 fast, 1 slow, 2 posts to the host non-blocking, 3 reads the widget's contents back
	drawer   bool

	env                *sessionEnv
	vx                 *vaxis.Vaxis
	pty                *simPTY
	vt                 *term.Model
	ref                *simterm.Term
	evs                []vaxis.Event
	done               bool
	hostRows, hostCols int
	winRow, winCol     int
	panicEv            string
	opNo               int
	drawsDone          int
	drawBusy           bool
	capture            bool
	known              map[string]bool
}

func init() {
	Register("C05", func() World { return &termWorld{prop: "C05"} })
	Register("C06", func() World { return &termWorld{prop: "C06"} })
}

func (w *termWorld) SimName() string { return "termWorld" }

func (w *termWorld) Describe() any {
	var ops []string
	for _, op := range w.ops {
		if op.Resize[0] > 0 {
			ops = append(ops, fmt.Sprintf("resize to %dx%d", op.Resize[0], op.Resize[1]))
			continue
		}
		ops = append(ops, fmt.Sprintf("%s %q", op.Desc, op.Bytes))
	}
	return map[string]any{"size": fmt.Sprintf("%dx%d", w.rows, w.cols), "ops": ops, "host": w.withHost, "handler": w.handler, "concurrent_draw": w.drawer}
}

var vtText = []string{"a", "b", "x", "Z", "1", "-", "é", "中", "文", "😀"}

func drawVtParam(t *simrt.Tape, size int, allowOmit bool) string {
	k := t.Draw(9)
	switch k {
	case 0:
		if allowOmit {
			return ""
		}
		return "1"
	case 1:
		return "0"
	case 2:
		return "1"
	case 3:
		return "2"
	case 4:
		return fmt.Sprint(max(size-1, 1))
	case 5:
		return fmt.Sprint(size)
	case 6:
		return fmt.Sprint(size + 1)
	case 7:
		return fmt.Sprint(1 + t.Draw(size+2))
	default:
		return fmt.Sprint(size + 5 + t.Draw(100))
	}
}

func sgrSeq(t *simrt.Tape) string {
	opts := []string{"0", "1", "2", "3", "4", "5", "7", "8", "9", "22", "23", "24", "25", "27", "28", "29", "31", "42", "39", "49", "93", "104",
		"38:5:123", "48:5:200", "38:2:10:20:30", "48:2::1:2:3", "38;5;9", "48;2;9;8;7", "4:3", "4:0", "58:5:3", "59", "", "1;31", "0;1"}
	n := 1 + t.Draw(2)
	var ps []string
	for i := 0; i < n; i++ {
		ps = append(ps, opts[t.Draw(len(opts))])
	}
	return "\x1b[" + strings.Join(ps, ";") + "m"
}

// genCoreOp draws one operation of C06's vocabulary. pending: the reference is
// in the deferred-wrap state, where only printing, CR and absolute positioning
// are defined.
func genCoreOp(t *simrt.Tape, rows, cols int, pending bool) (string, string) {
	return genCoreOpAlt(t, rows, cols, pending, false)
}

// onAlt: the reference is on the alternate screen. Entering it again is left
// out (whether and with which colour it is cleared a second time differs
// between terminals).
func genCoreOpAlt(t *simrt.Tape, rows, cols int, pending, onAlt bool) (string, string) {
	k := t.Draw(34)
	if pending {
		// printing, CR and absolute positioning (CUP/HVP, CHA, VPA)
		k = []int{0, 0, 1, 4, 4, 12, 13}[t.Draw(7)]
	}
	switch k {
	case 0, 2, 3:
		s := ""
		for n := 1 + t.Draw(5); n > 0; n-- {
			s += vtText[t.Draw(len(vtText))]
		}
		return s, "print"
	case 1:
		return "\r", "CR"
	case 4:
		f := "H"
		if t.Draw(3) == 0 {
			f = "f"
		}
		r, c := drawVtParam(t, rows, true), drawVtParam(t, cols, true)
		if c == "" {
			if r == "" {
				return "\x1b[" + f, "CUP"
			}
			return "\x1b[" + r + f, "CUP"
		}
		return "\x1b[" + r + ";" + c + f, "CUP"
	case 5:
		return "\n", "LF"
	case 6:
		return "\x1b[" + drawVtParam(t, rows, true) + "A", "CUU"
	case 7:
		return "\x1b[" + drawVtParam(t, rows, true) + "B", "CUD"
	case 8:
		return "\x1b[" + drawVtParam(t, cols, true) + "C", "CUF"
	case 9:
		return "\x1b[" + drawVtParam(t, cols, true) + "D", "CUB"
	case 10:
		return "\x1b[" + drawVtParam(t, rows, true) + "E", "CNL"
	case 11:
		return "\x1b[" + drawVtParam(t, rows, true) + "F", "CPL"
	case 12:
		return "\x1b[" + drawVtParam(t, cols, true) + "G", "CHA"
	case 13:
		return "\x1b[" + drawVtParam(t, rows, true) + "d", "VPA"
	case 14:
		return "\x1b[" + []string{"", "0", "1", "2"}[t.Draw(4)] + "J", "ED"
	case 15:
		return "\x1b[" + []string{"", "0", "1", "2"}[t.Draw(4)] + "K", "EL"
	case 16:
		return "\x1b[" + drawVtParam(t, cols, true) + "X", "ECH"
	case 17:
		return "\x1b[" + drawVtParam(t, cols, true) + "@", "ICH"
	case 18:
		return "\x1b[" + drawVtParam(t, cols, true) + "P", "DCH"
	case 19:
		return "\x1b[" + drawVtParam(t, rows, true) + "L", "IL"
	case 20:
		return "\x1b[" + drawVtParam(t, rows, true) + "M", "DL"
	case 21:
		return "\x1b[" + drawVtParam(t, rows, true) + "S", "SU"
	case 22:
		return "\x1b[" + drawVtParam(t, rows, true) + "T", "SD"
	case 23, 24:
		top, bot := drawVtParam(t, rows, true), drawVtParam(t, rows, true)
		if bot == "" {
			return "\x1b[" + top + "r", "DECSTBM"
		}
		return "\x1b[" + top + ";" + bot + "r", "DECSTBM"
	case 25:
		return "\x1bD", "IND"
	case 26:
		return "\x1bM", "RI"
	case 27:
		return "\x1bE", "NEL"
	case 28:
		return "\x1b7", "DECSC"
	case 29:
		return "\x1b8", "DECRC"
	case 30:
		// the form Vaxis itself uses; 47 and 1047 are not implemented by the
		// widget and stay in C05's stream only
		if onAlt {
			return "\x1b[?1049l", "altscreen"
		}
		return "\x1b[?1049" + "hl"[t.Draw(2):][:1], "altscreen"
	default:
		return sgrSeq(t), "SGR"
	}
}

// isPendingSafe: operations defined in the deferred-wrap state.
func isPendingSafe(b string) bool {
	if b == "\r" || !strings.HasPrefix(b, "\x1b") {
		return true
	}
	return strings.HasSuffix(b, "H") || strings.HasSuffix(b, "f") || (strings.HasPrefix(b, "\x1b[") && (strings.HasSuffix(b, "G") || strings.HasSuffix(b, "d")))
}

// enumOps is the fixed list of concrete operations the enumeration phase pairs up.
func enumOps(rows, cols int) []string {
	ps := []string{"", "0", "1", "2", fmt.Sprint(rows), fmt.Sprint(cols + 1), "9"}
	var out []string
	out = append(out, "z", "中", "\r", "\n", "\x1bD", "\x1bM", "\x1bE", "\x1b7", "\x1b8", "\x1b[?1049h", "\x1b[?1049l", "\x1b[m", "\x1b[1;41m", "\x1b[7;38:5:9m")
	for _, f := range "ABCDEFGdXP@LMST" {
		for _, p := range ps {
			out = append(out, "\x1b["+p+string(f))
		}
	}
	for _, p := range []string{"", "0", "1", "2"} {
		out = append(out, "\x1b["+p+"J", "\x1b["+p+"K")
	}
	for _, a := range []string{"", "1", "2", "3", "9"} {
		for _, b := range []string{"", "1", "2", "3", "4", "9"} {
			out = append(out, "\x1b["+a+";"+b+"H")
		}
	}
	for _, a := range []string{"", "1", "2", "3"} {
		for _, b := range []string{"", "1", "2", "3", "9"} {
			out = append(out, "\x1b["+a+";"+b+"r")
		}
	}
	return out
}

// genWildOp draws one unit of C05's stream: the emulator's whole vocabulary
// with boundary parameters, event bursts and raw bytes.
func genWildOp(t *simrt.Tape, rows, cols int) (string, string) {
	big := func(size int) string {
		return []string{"", "0", "1", fmt.Sprint(max(size-1, 0)), fmt.Sprint(size), fmt.Sprint(size + 1), "32768", "2147483647", fmt.Sprint(t.Draw(size + 3)), "4294967296", "9223372036854775807", "9223372036854775806", "18446744073709551616"}[t.Draw(13)]
	}
	switch t.Draw(16) {
	case 0, 1, 2, 3:
		return genCoreOp(t, rows, cols, false)
	case 4:
		finals := "@ABCDEFGHIJKLMPSTXZ`abdefgr"
		f := finals[t.Draw(len(finals))]
		size := cols
		if strings.ContainsRune("ABEFLMSTder", rune(f)) {
			size = rows
		}
		p := big(size)
		if t.Draw(3) == 0 {
			p += ";" + big(cols)
		}
		return "\x1b[" + p + string(f), "csi-boundary"
	case 5:
		m := []string{"1", "6", "7", "25", "1000", "1002", "1003", "1006", "1049", "47", "1047", "2004", "69", "5", "3", "12"}[t.Draw(16)]
		return "\x1b[?" + m + "hl"[t.Draw(2):][:1], "decmode"
	case 6:
		if t.Draw(2) == 0 {
			// SGR with truncated, empty or oversized extended-colour forms
			forms := []string{"38", "48", "58", "38;2", "38;5", "38;2;1", "38;2;10;20", "1;48;2;0;0", "48;5", "58;2;1;2", "38:2", "38:5", "38:2:1:2", "58:2::1", "4:", "38;5;999",
				"38;2;999;999;999", "38:2:1:2:3:4:5", "48;2;1;2;3;38", "38;;", ";;38;2", "38:5:", "58:5", "4:9", "38;2;2147483648;1;1", "38;5;9223372036854775807"}
			return "\x1b[" + forms[t.Draw(len(forms))] + "m", "sgr-truncated"
		}
		return "\x1b[" + []string{"4", "20", "2", "12"}[t.Draw(4)] + "hl"[t.Draw(2):][:1], "ansimode"
	case 7:
		n := 1 + t.Draw(8)
		return strings.Repeat("\x07", n), fmt.Sprintf("bell x%d", n)
	case 8:
		n := 1 + t.Draw(5)
		s := ""
		for i := 0; i < n; i++ {
			s += fmt.Sprintf("\x1b]2;title %d\x1b\\", i)
		}
		return s, fmt.Sprintf("title x%d", n)
	case 9:
		return []string{"\x1b]9;hello\x1b\\", "\x1b]777;notify;t;b\x1b\\", "\x1b]777;notify\x1b\\", "\x1b]52;c;aGk=\x1b\\", "\x1b]52;c;?\x1b\\", "\x1b]11;?\x1b\\", "\x1b]8;id=1;http://x\x1b\\", "\x1b]8;;\x1b\\", "\x1b]0;t\x07", "\x1b]\x1b\\", "\x1b]8\x1b\\", "\x1b]52\x1b\\"}[t.Draw(12)], "osc"
	case 10:
		return []string{"\tx", "\x1bH", "\x1b[g", "\x1b[3g", "\x1b[0g", "\x1b[I", "\x1b[5I", "\x1b[Z", "\x1b[9Z", "\x1b[2147483647I", "\x08", "\x0b", "\x0c", "\x0e", "\x0f"}[t.Draw(15)], "tabs-c0"
	case 11:
		return []string{"\x1bc", "\x1b=", "\x1b>", "\x1b(0", "\x1b(B", "\x1b)0", "\x1bN", "\x1bO", "\x1bn", "\x1bo", "\x1b#8", "\x1b[!p", "\x1b[c", "\x1b[>c", "\x1b[5n", "\x1b[6n", "\x1b[?2026$p", "\x1b[?25$p", "\x1b[ q", "\x1b[4 q", "\x1b[99 q", "\x1b[b", "\x1b[5b", "\x1b[2147483647b", "\x1b[s", "\x1b[u"}[t.Draw(26)], "misc"
	case 12:
		return []string{"\x1bPq\x1b\\", "\x1bPq#0;2;0;0;0#0~~\x1b\\", "\x1bP1;2q\x1b\\", "\x1bP$q q\x1b\\", "\x1b_Gi=1\x1b\\", "\x1b_\x1b\\"}[t.Draw(6)], "dcs-apc"
	case 13:
		s := ""
		for n := 1 + t.Draw(4); n > 0; n-- {
			s += []string{"👨‍👩‍👧", "́", "‍", "☺️", "🇺🇸", "中", "a"}[t.Draw(7)]
		}
		return s, "wide-zero-width"
	case 14:
		var b []byte
		for n := 1 + t.Draw(10); n > 0; n-- {
			b = append(b, byte(t.Draw(256)))
		}
		return string(b), "raw"
	default:
		return sgrSeq(t), "SGR"
	}
}

func (w *termWorld) Build(t *simrt.Tape, spec RunSpec) {
	w.known = knownSet(spec)
	w.capture = spec.Opts["capture"] != ""
	if w.prop == "C06" {
		w.rows, w.cols = 2+t.Draw(7), 2+t.Draw(15)
		if t.Draw(2) == 0 {
			w.rows, w.cols = 2+t.Draw(3), 2+t.Draw(4)
		}
		w.withHost = t.Draw(4) == 0
		w.drawer = w.withHost && t.Draw(2) == 0
		n := 1 + t.Draw(40)
		if t.Draw(3) == 0 {
			n = 1 + t.Draw(6)
		}
		ref := simterm.NewTerm(w.rows, w.cols, simterm.Caps{RGB: true, Smulx: true, Base: simterm.PUnicode})
		if spec.Opts["enum"] != "" {
			// bounded-exhaustive: every ordered pair of concrete operations
			// after a fixed set-up, on a tiny screen
			w.rows, w.cols = 3, 4
			w.withHost, w.drawer = false, false
			ref = simterm.NewTerm(w.rows, w.cols, simterm.Caps{RGB: true, Smulx: true, Base: simterm.PUnicode})
			list := enumOps(w.rows, w.cols)
			k := spec.Index - optInt(spec.Opts, "base", 0)
			setups := []string{"ab\r\ncd\x1b[2;2H", "\x1b[44mx中\x1b[2;3r\x1b[3;1Hy", "abcd\x1b[1;4H"}
			setup := setups[(k/(len(list)*len(list)))%len(setups)]
			i, j := (k/len(list))%len(list), k%len(list)
			w.ops = nil
			for _, b := range []string{setup, list[i], list[j]} {
				allowed := !ref.PendingWrap() || b == setup || isPendingSafe(b)
				if !allowed {
					b = "\r"
				}
				ref.Feed([]byte(b))
				w.ops = append(w.ops, termOp{Bytes: b, Desc: "enum"})
			}
			return
		}
		for i := 0; i < n; i++ {
			b, d := genCoreOpAlt(t, w.rows, w.cols, ref.PendingWrap(), ref.OnAlt())
			ref.Feed([]byte(b))
			w.ops = append(w.ops, termOp{Bytes: b, Desc: d, Chunk: t.Draw(4)})
		}
		return
	}
	w.rows, w.cols = 1+t.Draw(10), 1+t.Draw(20)
	w.withHost = true
	w.handler = t.Draw(4)
	w.drawer = t.Draw(2) == 0
	n := 1 + t.Draw(60)
	rows, cols := w.rows, w.cols
	for i := 0; i < n; i++ {
		if t.Draw(12) == 0 {
			rows, cols = 1+t.Draw(10), 1+t.Draw(20)
			w.ops = append(w.ops, termOp{Resize: [2]int{rows, cols}})
			continue
		}
		b, d := genWildOp(t, rows, cols)
		op := termOp{Bytes: b, Desc: d, Chunk: t.Draw(4)}
		if d == "wide-zero-width" {
			// a cluster cut by a read boundary becomes two cells that the
			// host's terminal would join again when they are re-rendered
			// side by side: positions drift for reasons outside this property
			op.Chunk = 0
		}
		if t.Draw(6) == 0 {
			op.GapUs = drawGrid(t, 20_000)
		}
		w.ops = append(w.ops, op)
	}
}

func (w *termWorld) Start(s *simrt.Sched, res *RunResult) {
	w.s, w.res = s, res
	s.MaxSteps = 250000
	w.pty = &simPTY{s: s}
	s.MakePTY = func(cols, rows int) simrt.PTY {
		w.pty.cols, w.pty.rows = cols, rows
		return w.pty
	}
	if w.withHost {
		w.hostRows, w.hostCols = 24, 60
		w.winRow, w.winCol = 1+s.Tape.Draw(3), 1+s.Tape.Draw(5)
		w.env = newSessionEnv(s, res, w.hostRows, w.hostCols, simterm.Caps{RGB: true, Smulx: true, Sync: true, Base: simterm.PWcwidth, UnicodeCore: true})
		w.env.replyDelay = promptReplies(s)
		w.env.capture = w.capture
		w.env.start()
	}
	s.Go("host", w.host)
}

func (w *termWorld) onEvent(ev vaxis.Event) {
	switch w.handler {
	case 1:
		simrt.Sleep(3 * time.Millisecond)
	case 2:
		if w.vx != nil {
			w.vx.PostEvent(ev)
		}
	case 3:
		// a consumer that looks at the terminal when it is told something
		// happened (a title change, a bell): events are raised without the
		// widget's lock held
		if _, closed := ev.(term.EventClosed); !closed && w.vt != nil {
			_ = w.vt.String()
		}
	}
	if p, ok := ev.(term.EventPanic); ok && w.panicEv == "" {
		w.panicEv = p.Error()
	}
	w.evs = append(w.evs, ev)
	simrt.Notify(w)
}

// sync makes the child ask for a cursor position report and waits for the
// emulator's answer: everything written before has then been processed.
func (w *termWorld) sync(bound time.Duration) (row, col int, ok bool) {
	mark := len(w.pty.fromEmu)
	w.pty.feed([]byte("\x1b[6n"))
	deadline := w.s.Now() + bound
	w.s.Go("sync-timer", func() {
		simrt.Sleep(bound)
		simrt.Notify(w.pty)
	})
	var rep string
	simrt.WaitUntil(w.pty, "child.wait-cpr", func() bool {
		out := string(w.pty.fromEmu[mark:])
		if i := strings.LastIndex(out, "\x1b["); i >= 0 && strings.HasSuffix(out, "R") {
			rep = out[i:]
			return true
		}
		return w.s.Now() >= deadline || w.pty.closed
	})
	if rep == "" {
		return 0, 0, false
	}
	fmt.Sscanf(rep, "\x1b[%d;%dR", &row, &col)
	return row - 1, col - 1, true
}

func (w *termWorld) chunked(b []byte, mode int) [][]byte {
	var out [][]byte
	for len(b) > 0 {
		n := len(b)
		switch mode {
		case 1:
			n = 1
		case 2:
			n = 1 + w.s.Tape.Draw(3)
		case 3:
			n = 1 + w.s.Tape.Draw(len(b))
		}
		if n > len(b) {
			n = len(b)
		}
		out = append(out, b[:n])
		b = b[n:]
	}
	return out
}

func (w *termWorld) hostWindow() vaxis.Window {
	return w.vx.Window().New(w.winCol, w.winRow, w.cols, w.rows)
}

func (w *termWorld) host() {
	defer func() {
		w.done = true
		if w.env != nil {
			w.env.shutdown()
		}
		w.s.Finish()
	}()
	if w.withHost {
		vx, err := newVaxis(w.env, vaxis.Options{})
		if err != nil {
			w.res.Violate("new-failed", "vaxis.New", "%v", err)
			return
		}
		w.vx = vx
	}
	w.vt = term.New()
	w.vt.Attach(w.onEvent)
	w.vt.Focus()
	if err := w.vt.StartWithSize(exec.Command("true"), w.cols, w.rows); err != nil {
		w.res.Violate("start-failed", "term.StartWithSize", "%v", err)
		return
	}
	w.ref = simterm.NewTerm(w.rows, w.cols, simterm.Caps{RGB: true, Smulx: true, Base: simterm.PUnicode})
	if w.drawer {
		w.s.Go("drawer", w.drawLoop)
	}
	for i, op := range w.ops {
		w.opNo = i
		if w.panicEv != "" || len(w.res.Violations) > 0 {
			break
		}
		if op.Resize[0] > 0 {
			// the documented way to resize: draw into a window of the new size
			w.rows, w.cols = op.Resize[0], op.Resize[1]
			w.res.Fault("resize-between-writes")
			if !w.drawOnce() {
				return
			}
			continue
		}
		if op.GapUs > 0 {
			simrt.Sleep(time.Duration(op.GapUs) * time.Microsecond)
		}
		for _, ch := range w.chunked([]byte(op.Bytes), op.Chunk) {
			w.pty.feed(ch)
			simrt.Yield("child.chunk")
		}
		if w.prop == "C06" {
			w.ref.Feed([]byte(op.Bytes))
			r, c, ok := w.sync(30 * time.Second)
			if !ok {
				w.res.Diag = append(w.res.Diag, fmt.Sprintf("emulator stopped answering after op %d (%s %q): %v", i, op.Desc, op.Bytes, w.s.Picture()))
				return
			}
			w.ref.Feed([]byte("\x1b[6n"))
			w.compareCore(i, r, c)
		} else {
			w.checkInvariants(fmt.Sprintf("after op %d (%s %q)", i, op.Desc, op.Bytes), false)
		}
	}
	if w.prop == "C05" && w.panicEv == "" && len(w.res.Violations) == 0 {
		// liveness: a title written last is delivered, a cursor report is answered, Draw returns
		w.pty.feed([]byte("\x1b]2;THE-END\x1b\\"))
		_, _, ok := w.sync(20 * time.Second)
		if !ok {
			w.violate05("stalled", "term.Model", "the emulator stopped processing child output: a cursor position request written after the stream was not answered within 20 simulated seconds; tasks: %v", w.s.Picture())
			return
		}
		simrt.WaitUntil(w, "host.wait-title", func() bool {
			for _, ev := range w.evs {
				if t, ok := ev.(term.EventTitle); ok && string(t) == "THE-END" {
					return true
				}
			}
			return w.s.Now() > 10*time.Minute
		})
		w.checkInvariants("at the end of the stream", true)
		if len(w.res.Violations) == 0 {
			w.drawOnce()
		}
	}
	if w.vx != nil {
		w.vx.Close()
	}
}

func (w *termWorld) violate05(oracle, site, format string, args ...any) {
	w.res.Violate(oracle, site, format+"\ncase: %s", append(args, toJSON(w.Describe()))...)
}

// drawOnce draws the emulator into the host window and renders, with a bound.
func (w *termWorld) drawOnce() bool {
	if w.vx == nil {
		return true
	}
	doneAt := -1
	w.s.Go("draw", func() {
		defer func() {
			doneAt = 1
			simrt.Notify(w)
		}()
		// the host application draws from one goroutine only
		simrt.WaitUntil(w, "draw.wait-turn", func() bool { return !w.drawBusy })
		w.drawBusy = true
		defer func() { w.drawBusy = false; simrt.Notify(w) }()
		// an application redraws its whole screen every frame
		w.vx.Window().Clear()
		win := w.hostWindow()
		w.vt.Draw(win)
	})
	start := w.s.Now()
	w.s.Go("draw-timer", func() {
		simrt.Sleep(30 * time.Second)
		simrt.Notify(w)
	})
	simrt.WaitUntil(w, "host.wait-draw", func() bool { return doneAt > 0 || w.s.Now()-start >= 30*time.Second })
	if doneAt < 0 {
		w.violate05("draw-blocked", "term.Model.Draw", "Draw did not return within 30 simulated seconds (the PTY goroutine holds the widget's mutex or is wedged); tasks: %v", w.s.Picture())
		return false
	}
	w.drawsDone++
	w.vx.Render()
	w.env.quiesce()
	// cells outside the host window must be untouched (blank)
	t := w.env.term
	snap := w.vt.SimSnapshot()
	for r := 0; r < t.Rows; r++ {
		for c := 0; c < t.Cols; c++ {
			in := r >= w.winRow && r < w.winRow+w.rows && c >= w.winCol && c < w.winCol+w.cols
			if in {
				continue
			}
			if r >= w.winRow && r-w.winRow < len(snap.Cells) && rowReclusters(snap.Cells[r-w.winRow]) {
				// neighbouring cells of this row hold graphemes which a
				// clustering terminal joins when they are written next to
				// each other (one ends in ZWJ, the next is an emoji; one
				// starts with a combining mark ...): the row is shorter on
				// the terminal than in any cell model. Terminal behaviour
				// on text no cell-based renderer can represent
				continue
			}
			if c == w.winCol-1 && r >= w.winRow && r-w.winRow < len(snap.Cells) && len(snap.Cells[r-w.winRow]) > 0 {
				// the child put a lone combining character (Extend,
				// SpacingMark, ZWJ ...) into the first column: a terminal
				// that clusters graphemes shows it joined to whatever is
				// to its left. What becomes of such ill-formed text is
				// terminal behaviour, not a write of Draw
				if g := snap.Cells[r-w.winRow][0].Grapheme; g != "" {
					if cl, _, _, _ := uniseg.FirstGraphemeClusterInString("a"+g, -1); len(cl) > 1 {
						continue
					}
				}
			}
			cell := t.Cell(r, c)
			if !cell.Blank() || cell.Style != (simterm.Style{}) {
				w.violate05("draw-escapes-window", "term.Model.Draw", "after drawing the %dx%d emulator into the host window at row %d col %d the host terminal cell (row %d, col %d) outside it shows %q with style %+v", w.rows, w.cols, w.winRow, w.winCol, r, c, cell.G, cell.Style)
				return false
			}
		}
	}
	return true
}

// rowReclusters reports whether the graphemes of a row, written one after the
// other, would be segmented differently by a grapheme-clustering terminal.
func rowReclusters(row []term.SimCell) bool {
	var gs []string
	for i := 0; i < len(row); i++ {
		g := row[i].Grapheme
		if g == "" {
			g = " "
		}
		gs = append(gs, g)
		if row[i].Width > 1 {
			i += row[i].Width - 1
		}
	}
	rest := strings.Join(gs, "")
	for _, g := range gs {
		var cl string
		cl, rest, _, _ = uniseg.FirstGraphemeClusterInString(rest, -1)
		if cl != g {
			return true
		}
	}
	return false
}

func (w *termWorld) drawLoop() {
	for i := 0; i < 200 && !w.done && w.panicEv == ""; i++ {
		simrt.Sleep(time.Duration(Grid[w.s.Tape.Draw(9)]) * time.Microsecond)
		if w.done || w.vx == nil {
			return
		}
		simrt.WaitUntil(w, "drawer.wait-turn", func() bool { return !w.drawBusy })
		w.drawBusy = true
		w.vx.Window().Clear()
		win := w.hostWindow()
		w.vt.Draw(win)
		w.drawBusy = false
		simrt.Notify(w)
		w.res.Fault("concurrent-draw")
	}
}

// checkInvariants: C05's structural invariants.
func (w *termWorld) checkInvariants(at string, final bool) {
	if w.panicEv != "" {
		w.violate05("panic", panicSiteOf(w.panicEv), "%s the emulator panicked: %s", at, firstLines(w.panicEv, 12))
		return
	}
	if !final && w.s.Tape.Draw(3) != 0 {
		return // sampled: taking the snapshot needs the widget's mutex
	}
	snap := w.vt.SimSnapshot()
	bad := func(format string, args ...any) {
		w.violate05("invariant", "term.Model", "%s: "+format, append([]any{at}, args...)...)
	}
	switch {
	case snap.Rows != w.rows || len(snap.RowLens) != w.rows:
		if w.drawsDone > 0 || w.opNo == 0 {
			// the size only changes when the host draws; until then the old size stands
		}
	}
	rows, cols := len(snap.RowLens), 0
	if rows > 0 {
		cols = snap.RowLens[0]
	}
	for i, l := range snap.RowLens {
		if l != cols {
			bad("row %d has %d cells, the terminal is %d wide", i, l, cols)
			return
		}
	}
	for i, l := range snap.PrimaryLens {
		if l != cols || snap.PrimaryRows != rows {
			bad("primary screen row %d has %d cells (screen %dx%d)", i, l, rows, cols)
			return
		}
	}
	for i, l := range snap.AltLens {
		if l != cols || snap.AltRows != rows {
			bad("alternate screen row %d has %d cells (screen %dx%d)", i, l, rows, cols)
			return
		}
	}
	if snap.CursorRow < 0 || snap.CursorRow >= rows {
		bad("cursor row %d outside the %d-row screen", snap.CursorRow, rows)
		return
	}
	if snap.CursorCol < 0 || snap.CursorCol > cols || (snap.CursorCol == cols && !snap.LastCol) {
		bad("cursor column %d outside the %d-column screen (wrap pending: %v)", snap.CursorCol, cols, snap.LastCol)
		return
	}
	if !(0 <= snap.MarginTop && snap.MarginTop <= snap.MarginBottom && snap.MarginBottom <= rows-1) {
		bad("scroll margins top=%d bottom=%d not ordered within the %d-row screen", snap.MarginTop, snap.MarginBottom, rows)
		return
	}
	if !(0 <= snap.MarginLeft && snap.MarginLeft <= snap.MarginRight && snap.MarginRight <= cols-1) {
		bad("margins left=%d right=%d not ordered within the %d-column screen", snap.MarginLeft, snap.MarginRight, cols)
		return
	}
}

func firstLines(s string, n int) string {
	lines := strings.Split(s, "\n")
	if len(lines) > n {
		lines = lines[:n]
	}
	return strings.Join(lines, "\n")
}

// panicSiteOf extracts the first widgets/term frame of a panic text.
func panicSiteOf(s string) string {
	for _, l := range strings.Split(s, "\n") {
		if strings.Contains(l, "widgets/term.") && !strings.Contains(l, "recover") && !strings.Contains(l, "StartWithSize") {
			l = strings.TrimSpace(l)
			if i := strings.Index(l, "widgets/term."); i >= 0 {
				l = l[i+len("widgets/term."):]
			}
			if i := strings.Index(l, "("); i > 0 && !strings.HasPrefix(l, "(") {
				l = l[:i]
			} else if j := strings.LastIndex(l, "("); j > 0 {
				l = l[:j]
			}
			return "term." + l
		}
	}
	return "term"
}

// compareCore: C06's comparison of emulator and reference after one operation.
func (w *termWorld) compareCore(i int, cprRow, cprCol int) {
	op := w.ops[i]
	snap := w.vt.SimSnapshot()
	ref := w.ref
	fail := func(format string, args ...any) {
		hist := ""
		for k := 0; k <= i; k++ {
			hist += fmt.Sprintf("%s %q; ", w.ops[k].Desc, w.ops[k].Bytes)
		}
		aspect := "cell"
		switch {
		case strings.HasPrefix(format, "cursor"):
			aspect = "cursor"
		case strings.Contains(format, "reference has"):
			aspect = "style"
		case strings.Contains(format, "width"):
			aspect = "width"
		}
		w.res.Violate("vt-mismatch", "op:"+op.Desc+"/"+aspect, "%dx%d screen, after operation %d (%s %q): "+format+"\nhistory: %s", append([]any{w.rows, w.cols, i, op.Desc, op.Bytes}, append(args, hist)...)...)
	}
	if w.panicEv != "" {
		w.res.Diag = append(w.res.Diag, "emulator panic (C05's business): "+firstLines(w.panicEv, 3))
		return
	}
	if len(snap.Cells) != ref.Rows {
		fail("emulator has %d rows, reference %d", len(snap.Cells), ref.Rows)
		return
	}
	// cursor
	er, ec := snap.CursorRow, snap.CursorCol
	pending := snap.LastCol && ec >= snap.Cols
	if pending {
		ec = snap.Cols - 1
	}
	if ref.PendingWrap() {
		// only the row and "at the last column" are defined
		if er != ref.R || ec != ref.C {
			fail("cursor at row %d col %d, reference at row %d col %d (wrap pending)", er, snap.CursorCol, ref.R, ref.C)
			return
		}
	} else if er != ref.R || ec != ref.C || pending {
		fail("cursor at row %d col %d (wrap pending: %v), reference at row %d col %d", er, snap.CursorCol, pending, ref.R, ref.C)
		return
	}
	for r := 0; r < ref.Rows; r++ {
		if len(snap.Cells[r]) != ref.Cols {
			fail("row %d has %d cells, reference %d", r, len(snap.Cells[r]), ref.Cols)
			return
		}
		for c := 0; c < ref.Cols; c++ {
			rc := ref.Cell(r, c)
			if rc.Unspec {
				continue
			}
			ecell := snap.Cells[r][c]
			if rc.W == 0 {
				// right half of a wide glyph: blank, same background
				if !blankEq(ecell.Grapheme, "") {
					fail("cell (row %d, col %d) is the right half of a wide glyph but shows %q", r, c, ecell.Grapheme)
					return
				}
				continue
			}
			if !blankEq(ecell.Grapheme, rc.G) {
				fail("cell (row %d, col %d) shows %q, reference %q", r, c, ecell.Grapheme, rc.G)
				return
			}
			ew := ecell.Width
			if ew == 0 {
				ew = 1
			}
			if ew != rc.W {
				fail("cell (row %d, col %d) %q has width %d, reference %d", r, c, ecell.Grapheme, ew, rc.W)
				return
			}
			es := expectStyle(ecell.Style, simterm.Caps{RGB: true, Smulx: true})
			rs := rc.Style
			if rc.Blank() {
				// an empty cell shows nothing but its background (and what
				// the attributes make of it): foreground and underline
				// colour are invisible there
				es.fg, es.ul = expColor{kind: rs.Fg.Kind, vals: []uint32{rs.Fg.V}}, expColor{kind: rs.Ul.Kind, vals: []uint32{rs.Ul.V}}
			}
			if d := es.diffNoLink(rs); d != "" {
				fail("cell (row %d, col %d) %q: reference has %s (\"want\" is what the emulator shows)", r, c, rc.G, d)
				return
			}
		}
	}
}

func (w *termWorld) Finish(s *simrt.Sched, res *RunResult) {
	res.Nontrivial = len(w.ops) > 2
	res.EndState = fmt.Sprintf("%s ops=%d", s.End, len(w.ops))
	for _, t := range s.Panics() {
		if _, ok := t.PanicVal.(simrt.InjectedPanic); ok {
			continue
		}
		site := simrt.PanicSite(t.PanicText)
		if w.prop == "C05" {
			res.Violate("panic", site, "task %d/%s panicked: %s\ncase: %s\n%s", t.ID, t.Name, firstLine(t.PanicText), toJSON(w.Describe()), firstLines(t.PanicText, 30))
		} else {
			res.Diag = append(res.Diag, "task panic (C05's business): "+firstLine(t.PanicText))
		}
	}
	if w.prop == "C05" && len(res.Violations) == 0 {
		if w.panicEv != "" {
			w.violate05("panic", panicSiteOf(w.panicEv), "the emulator panicked: %s", firstLines(w.panicEv, 12))
		} else if s.End == simrt.EndDeadlock || !w.done {
			w.violate05("stalled", "term.Model", "the run did not complete (%s); tasks: %v", s.End, s.Picture())
		}
	}
}
