package worlds

import (
	"fmt"
	"io"
	"os/exec"
	"sort"
	"strings"
	"syscall"
	"time"

	"git.sr.ht/~rockorager/vaxis"
	"git.sr.ht/~rockorager/vaxis/simrt"
	"git.sr.ht/~rockorager/vaxis/widgets/term"
	"github.com/containerd/console"

	"simharness/simterm"
)

// nestedWorld (C12, C13): a real Vaxis application (the "inner" one) runs as
// the child of the real embedded terminal widget: its console is the child
// side of the simulated pseudo terminal, so everything it writes is parsed and
// interpreted by widgets/term, and every reply or forwarded input the widget
// writes is the inner application's terminal input. A host Vaxis session on
// the reference terminal draws the widget into a window.

// childConsole is the inner application's tty: the child side of the PTY.
type childConsole struct {
	w      *nestedWorld
	pty    *simPTY
	rd     int
	closed bool
	chunk  int
}

func (c *childConsole) SimName() string { return "child-tty" }

func (c *childConsole) Read(p []byte) (int, error) {
	if c.rd >= len(c.pty.fromEmu) && !c.closed {
		simrt.WaitUntil(c.pty, "child.Read", func() bool { return c.rd < len(c.pty.fromEmu) || c.closed })
	} else {
		simrt.Yield("child.Read")
	}
	if c.rd < len(c.pty.fromEmu) {
		avail := c.pty.fromEmu[c.rd:]
		n := len(avail)
		if n > len(p) {
			n = len(p)
		}
		if c.chunk == 1 && n > 1 {
			n = 1 + c.w.s.Tape.Draw(n)
		}
		copy(p, avail[:n])
		c.rd += n
		return n, nil
	}
	return 0, io.EOF
}

func (c *childConsole) Write(p []byte) (int, error) {
	simrt.Yield("child.Write")
	if c.closed {
		return 0, io.ErrClosedPipe
	}
	// the widget reads the child's output in pieces; a piece never ends
	// inside a grapheme cluster (pieces end before an ESC byte: Vaxis writes
	// each run of text in one piece after its control sequences)
	b := p
	for len(b) > 0 {
		n := len(b)
		if c.chunk >= 2 {
			var cuts []int
			for i := 1; i < len(b); i++ {
				if b[i] == 0x1b {
					cuts = append(cuts, i)
				}
			}
			if len(cuts) > 0 && (c.chunk == 2 || c.w.s.Tape.Draw(2) == 0) {
				n = cuts[c.w.s.Tape.Draw(min(len(cuts), 4))]
			}
		}
		c.pty.feed(b[:n])
		b = b[n:]
		if len(b) > 0 {
			c.w.res.Fault("child-output-split")
			simrt.Yield("child.Write.chunk")
		}
	}
	return len(p), nil
}

func (c *childConsole) Close() error {
	c.closed = true
	simrt.Notify(c.pty)
	return nil
}
func (c *childConsole) Fd() uintptr                      { return ^uintptr(0) }
func (c *childConsole) Name() string                     { return "sim-child" }
func (c *childConsole) Resize(console.WinSize) error     { return nil }
func (c *childConsole) ResizeFrom(console.Console) error { return nil }
func (c *childConsole) SetRaw() error                    { return nil }
func (c *childConsole) DisableEcho() error               { return nil }
func (c *childConsole) Reset() error                     { return nil }
func (c *childConsole) Size() (console.WinSize, error) {
	return console.WinSize{Height: uint16(c.pty.rows), Width: uint16(c.pty.cols)}, nil
}

type nestedWorld struct {
	prop string
	s    *simrt.Sched
	res  *RunResult

	rows, cols int
	frames     []frame
	withHost   bool
	hostFirst  bool // the host draws the widget once before the child starts
	hostOSC11  bool
	chunk      int

	env            *sessionEnv
	host           *vaxis.Vaxis
	inner          *vaxis.Vaxis
	pty            *simPTY
	child          *childConsole
	vt             *term.Model
	m              *appModel
	winRow, winCol int
	frameNo        int
	checked        int
	done           bool
	panicEv        string
	capture        bool
	innerCaps      map[string]bool
	known          map[string]bool

	// C13
	items   []fwdItem
	modes   fwdModes
	fwdDone int
}

func init() {
	Register("C12", func() World { return &nestedWorld{prop: "C12"} })
	Register("C13", func() World { return &nestedWorld{prop: "C13"} })
}

func (w *nestedWorld) SimName() string { return "nestedWorld" }

func (w *nestedWorld) Describe() any {
	d := map[string]any{"size": fmt.Sprintf("%dx%d", w.rows, w.cols), "host": w.withHost, "host_draws_first": w.hostFirst, "host_osc11": w.hostOSC11, "chunking": w.chunk}
	if w.prop == "C12" {
		d["frames"] = frameStrings(w.frames)
	} else {
		d["modes"] = w.modes.String()
		d["items"] = len(w.items)
	}
	return d
}

// emuPersonality: the widget prints what the parser hands it, and the parser
// hands it whole grapheme clusters with their Unicode width.
const emuPersonality = simterm.PUnicode

// emuCaps is what the widget advertises to its child, established from its
// source by hand: DA1 carries 4 (sixel); DECRQM answers "unknown" for
// every private mode Vaxis probes (2026, 2027, 2031, 2048); nothing answers
// XTGETTCAP, XTVERSION, the kitty keyboard and graphics queries, OSC 4/10,
// CSI 14/18 t or DECRQSS; OSC 11 is forwarded to the host terminal once a
// host has drawn the widget.
func emuCaps() simterm.Caps {
	return simterm.Caps{Sixel: true, UnicodeCore: true, Base: emuPersonality}
}

func (w *nestedWorld) Build(t *simrt.Tape, spec RunSpec) {
	w.capture = spec.Opts["capture"] != ""
	w.known = knownSet(spec)
	if t.Draw(4) != 0 {
		w.rows, w.cols = 1+t.Draw(4), 1+t.Draw(10)
	} else {
		w.rows, w.cols = 1+t.Draw(10), 1+t.Draw(20)
	}
	w.withHost = t.Draw(3) != 0
	w.hostFirst = w.withHost && t.Draw(2) == 0
	w.hostOSC11 = t.Draw(2) == 0
	w.chunk = t.Draw(4)
	if w.prop == "C12" {
		cfg := frameGenCfg{rows: w.rows, cols: w.cols, pers: emuPersonality, rich: t.Draw(3) != 0,
			resizes: w.withHost && t.Draw(3) == 0, refreshes: true, maxFrames: 8, maxOps: 14}
		w.frames = genFrames(t, cfg)
	} else {
		w.build13(t, spec)
	}
}

func (w *nestedWorld) Start(s *simrt.Sched, res *RunResult) {
	w.s, w.res = s, res
	s.MaxSteps = 400000
	w.pty = &simPTY{s: s}
	s.MakePTY = func(cols, rows int) simrt.PTY {
		w.pty.cols, w.pty.rows = cols, rows
		return w.pty
	}
	if w.withHost {
		w.winRow, w.winCol = s.Tape.Draw(3), s.Tape.Draw(5)
		w.env = newSessionEnv(s, res, 24, 60, simterm.Caps{RGB: true, Smulx: true, Sync: true, Base: simterm.PWcwidth, UnicodeCore: true, OSC11: w.hostOSC11})
		w.env.replyDelay = promptReplies(s)
		w.env.capture = w.capture
		w.env.start()
	}
	s.Go("driver", w.driver)
}

func (w *nestedWorld) onEvent(ev vaxis.Event) {
	if p, ok := ev.(term.EventPanic); ok && w.panicEv == "" {
		w.panicEv = p.Error()
	}
}

// settle waits until everything written on either side of the PTY has been
// consumed and acted upon. Simulated time only advances when no task can run,
// so after a sleep every task has run until it blocked.
func (w *nestedWorld) settle() {
	for i := 0; i < 50; i++ {
		simrt.Sleep(time.Millisecond)
		if len(w.pty.toEmu) == 0 && len(w.pty.cur) == 0 && w.child.rd >= len(w.pty.fromEmu) {
			if w.env != nil {
				w.env.settle()
			}
			if len(w.pty.toEmu) == 0 && len(w.pty.cur) == 0 && w.child.rd >= len(w.pty.fromEmu) {
				return
			}
		}
	}
}

func (w *nestedWorld) hostWindow() vaxis.Window {
	return w.host.Window().New(w.winCol, w.winRow, w.cols, w.rows)
}

func (w *nestedWorld) hostDraw() {
	w.host.Window().Clear()
	w.host.HideCursor()
	w.vt.Draw(w.hostWindow())
	w.host.Render()
	w.env.quiesce()
}

// pollInner polls the inner application's events until pred accepts one.
func (w *nestedWorld) pollInner(what string, bound time.Duration, pred func(vaxis.Event) bool) bool {
	deadline := w.s.Now() + bound
	for {
		var ev vaxis.Event
		var ok bool
		tm := time.NewTimer(deadline - w.s.Now())
		k := simrt.Select("inner.poll:"+what, false, simrt.CaseRecv(w.inner.Events(), &ev, &ok), simrt.CaseRecv(tm.C, nil, nil))
		tm.Stop()
		if k != 0 || !ok {
			return false
		}
		if fn, isFn := ev.(vaxis.SyncFunc); isFn {
			fn()
		}
		if w.capture {
			w.res.Diag = append(w.res.Diag, fmt.Sprintf("t=%v inner app got %T %+v while waiting for %s", w.s.Now(), ev, ev, what))
		}
		if pred(ev) {
			return true
		}
	}
}

func (w *nestedWorld) driver() {
	defer func() {
		w.done = true
		if w.env != nil {
			w.env.shutdown()
		}
		w.s.Finish()
	}()
	if w.withHost {
		vx, err := newVaxis(w.env, vaxis.Options{})
		if err != nil {
			w.res.Violate("new-failed", "vaxis.New(host)", "%v", err)
			return
		}
		w.host = vx
	}
	w.vt = term.New()
	w.vt.OSC8 = true
	w.vt.Attach(w.onEvent)
	w.vt.Focus()
	if err := w.vt.StartWithSize(exec.Command("true"), w.cols, w.rows); err != nil {
		w.res.Violate("start-failed", "term.StartWithSize", "%v", err)
		return
	}
	w.child = &childConsole{w: w, pty: w.pty, chunk: w.chunk}
	if w.hostFirst {
		w.hostDraw()
		w.res.Fault("host-draws-before-child-starts")
	}
	// the child: a Vaxis application on the PTY
	inner, err := vaxis.New(vaxis.Options{WithConsole: w.child})
	if err != nil {
		w.res.Violate("new-failed", "vaxis.New(inner)", "the application inside the embedded terminal could not start: %v", err)
		return
	}
	w.inner = inner
	w.innerCaps = inner.SimCaps()
	w.m = newAppModel(w.rows, w.cols)
	w.pollInner("initial-resize", 30*time.Second, func(ev vaxis.Event) bool { _, ok := ev.(vaxis.Resize); return ok })
	if w.prop == "C12" {
		w.checkCaps()
		w.runFrames()
	} else {
		w.run13()
	}
	if w.panicEv != "" {
		w.res.Violate("emulator-panic", panicSiteOf(w.panicEv), "the embedded terminal panicked: %s", firstLines(w.panicEv, 12))
	}
	closed := false
	w.s.Go("inner-close", func() {
		inner.Close()
		closed = true
		simrt.Notify(w)
	})
	w.s.Go("close-timer", func() { simrt.Sleep(60 * time.Second); simrt.Notify(w) })
	t0 := w.s.Now()
	simrt.WaitUntil(w, "driver.wait-close", func() bool { return closed || w.s.Now()-t0 >= 60*time.Second })
	if !closed && w.panicEv == "" {
		w.res.Violate("inner-close-stuck", "vaxis.Close(inner)", "the application inside the embedded terminal could not shut down within 60 simulated seconds (its DA1 request was not answered?): %v", w.s.Picture())
	}
	w.vt.Close()
	if w.host != nil {
		w.host.Close()
	}
}

// checkCaps: what the inner Vaxis learnt at start-up is what the widget advertises.
func (w *nestedWorld) checkCaps() {
	// implemented by the widget, hence to be understood by the application:
	// sixel (DA1), grapheme clustering (DECRQM 2027); and direct colour and
	// styled underlines, for which the widget has no reply at all (known
	// finding emulator-cannot-advertise-rgb-smulx: the application falls
	// back to palette colours and plain underlines, which the display oracle
	// then expects)
	want := map[string]bool{"sixel": true, "unicode-core": true, "rgb": true, "styled-ul": true}
	if w.known["emulator-cannot-advertise-rgb-smulx"] && !w.innerCaps["rgb"] && !w.innerCaps["styled-ul"] {
		want["rgb"], want["styled-ul"] = false, false
		w.res.Known("emulator-cannot-advertise-rgb-smulx", 1)
	}
	if w.hostFirst && w.hostOSC11 {
		want["osc11"] = true
	}
	var bad []string
	for k, v := range w.innerCaps {
		if v != want[k] {
			bad = append(bad, fmt.Sprintf("%s=%v", k, v))
		}
	}
	sort.Strings(bad)
	if len(bad) > 0 {
		w.res.Violate("startup-caps", "caps:"+strings.Join(bad, ","), "the application inside the embedded terminal concluded %v from the widget's replies; the widget advertises exactly: sixel (DA1), OSC 11 only through a host that can (host drew first: %v, host answers OSC 11: %v)", bad, w.hostFirst, w.hostOSC11)
	}
}

func (w *nestedWorld) runFrames() {
	inSync := false
	for i, fr := range w.frames {
		if len(w.res.Violations) > 0 || w.panicEv != "" {
			return
		}
		w.frameNo = i
		applyOps(w.inner, w.m, fr.Ops, emuPersonality)
		switch fr.End {
		case endRefresh:
			w.inner.Refresh()
			w.check(fmt.Sprintf("frame %d (Refresh)", i))
			inSync = true
		case endRender:
			w.inner.Render()
			if inSync || i == 0 {
				w.check(fmt.Sprintf("frame %d (Render)", i))
			}
			inSync = true
		case endResize:
			w.inner.Render()
			if inSync || i == 0 {
				w.check(fmt.Sprintf("frame %d (Render before resize)", i))
			}
			if !w.resize(fr.NewRows, fr.NewCols) {
				return
			}
			inSync = true
		}
	}
}

// resize: the host draws the widget into a window of another size (the
// documented way), the widget tells the PTY, the kernel tells the child.
func (w *nestedWorld) resize(rows, cols int) bool {
	w.settle()
	if rows == w.rows && cols == w.cols {
		cols++
	}
	w.rows, w.cols = rows, cols
	w.res.Fault("resize")
	w.hostDraw()
	if w.pty.rows != rows || w.pty.cols != cols {
		w.res.Violate("pty-size", "term.Model.Resize", "after drawing the widget into a %dx%d window the PTY size is %dx%d", rows, cols, w.pty.rows, w.pty.cols)
		return false
	}
	w.s.Deliver(syscall.SIGWINCH)
	got := false
	var sz vaxis.Resize
	w.pollInner("resize-event", 30*time.Second, func(ev vaxis.Event) bool {
		switch e := ev.(type) {
		case vaxis.Redraw:
			w.inner.Render()
		case vaxis.Resize:
			sz, got = e, true
			return e.Rows == rows && e.Cols == cols
		}
		return false
	})
	if !got || sz.Rows != rows || sz.Cols != cols {
		w.res.Violate("resize-event", "vaxis.Render(inner)", "frame %d: the widget was resized to %dx%d; the inner application's last Resize event was %+v (received=%v)", w.frameNo, rows, cols, sz, got)
		return false
	}
	w.m = newAppModelKeepCursor(w.m, rows, cols)
	if !w.m.curVisible {
		w.inner.HideCursor()
	}
	return true
}

func toSimColor(c vaxis.Color) simterm.Color {
	p := c.Params()
	switch len(p) {
	case 1:
		return simterm.Color{Kind: simterm.ColIndex, V: uint32(p[0])}
	case 3:
		return simterm.Color{Kind: simterm.ColRGB, V: uint32(p[0])<<16 | uint32(p[1])<<8 | uint32(p[2])}
	}
	return simterm.Color{}
}

func toSimStyle(st vaxis.Style) simterm.Style {
	out := simterm.Style{Fg: toSimColor(st.Foreground), Bg: toSimColor(st.Background), Ul: toSimColor(st.UnderlineColor),
		UlStyle: uint8(st.UnderlineStyle), LinkURI: st.Hyperlink, LinkParams: st.HyperlinkParams}
	if st.Hyperlink == "" {
		out.LinkParams = ""
	}
	pairs := []struct {
		v vaxis.AttributeMask
		s uint8
	}{{vaxis.AttrBold, simterm.ABold}, {vaxis.AttrDim, simterm.ADim}, {vaxis.AttrItalic, simterm.AItalic}, {vaxis.AttrBlink, simterm.ABlink},
		{vaxis.AttrReverse, simterm.AReverse}, {vaxis.AttrInvisible, simterm.AInvisible}, {vaxis.AttrStrikethrough, simterm.AStrike}}
	for _, p := range pairs {
		if st.Attribute&p.v != 0 {
			out.Attr |= p.s
		}
	}
	return out
}

// check compares (1) the widget's grid and cursor and (2) the host terminal's
// window region with the inner application's own record.
func (w *nestedWorld) check(at string) {
	w.settle()
	if w.panicEv != "" {
		return
	}
	w.checked++
	hist := func() string { return toJSON(frameStrings(w.frames[:w.frameNo+1])) }
	snap := w.vt.SimSnapshot()
	if !snap.AltScreen {
		w.res.Violate("not-on-alt-screen", "term.Model", "%s: the application's frame was not drawn on the widget's alternate screen", at)
		return
	}
	if len(snap.Cells) != w.m.rows || (len(snap.Cells) > 0 && len(snap.Cells[0]) != w.m.cols) {
		w.res.Violate("display", "term.Model/size", "%s: the widget's grid has %d rows, the application drew for %dx%d", at, len(snap.Cells), w.m.rows, w.m.cols)
		return
	}
	exp := expectedDisplay(w.m, emuCaps(), emuPersonality)
	cellAt := func(r, c int) simterm.Cell {
		ec := snap.Cells[r][c]
		cell := simterm.Cell{G: ec.Grapheme, W: ec.Width, Style: toSimStyle(ec.Style)}
		if cell.W == 0 {
			cell.W = 1
		}
		return cell
	}
	// right halves of wide glyphs: the widget keeps an empty cell there
	for r := range snap.Cells {
		for c := 0; c < len(snap.Cells[r]); c++ {
			if snap.Cells[r][c].Width > 1 {
				for k := 1; k < snap.Cells[r][c].Width && c+k < len(snap.Cells[r]); k++ {
					if snap.Cells[r][c+k].Grapheme == "" || snap.Cells[r][c+k].Grapheme == " " {
						snap.Cells[r][c+k].Width = -1
					}
				}
			}
		}
	}
	cellAt2 := func(r, c int) simterm.Cell {
		if snap.Cells[r][c].Width == -1 {
			return simterm.Cell{W: 0}
		}
		return cellAt(r, c)
	}
	if d := compareGrid(cellAt2, exp); d != "" {
		w.res.Violate("display", "term.Model", "%s: widget grid: %s\nwidget %dx%d\nhistory: %s", at, d, w.rows, w.cols, hist())
		return
	}
	if d := w.cursorDiff(snap.CursorShown, snap.CursorRow, snap.CursorCol, int(snap.CursorStyle)); d != "" {
		w.res.Violate("cursor", "term.Model", "%s: widget %s\nhistory: %s", at, d, hist())
		return
	}
	if w.host == nil {
		return
	}
	// (2) drawn into the host window
	w.hostDraw()
	t := w.env.term
	hostCell := func(r, c int) simterm.Cell { return t.Cell(w.winRow+r, w.winCol+c) }
	if d := compareGrid(hostCell, exp); d != "" {
		w.res.Violate("display", "term.Model.Draw", "%s: host window (at row %d col %d of the host terminal): %s\nwidget %dx%d\nhistory: %s", at, w.winRow, w.winCol, d, w.rows, w.cols, hist())
		return
	}
	if d := w.cursorDiff(t.CursorVisible, t.R-w.winRow, t.C-w.winCol, t.CursorStyle); d != "" {
		w.res.Violate("cursor", "term.Model.Draw", "%s: host terminal %s (relative to the window)\nhistory: %s", at, d, hist())
	}
}

func (w *nestedWorld) cursorDiff(visible bool, row, col, style int) string {
	m := w.m
	switch {
	case !m.curVisible && visible:
		return fmt.Sprintf("cursor is visible (at row %d col %d), the application last requested it hidden", row, col)
	case m.curVisible && !visible:
		return fmt.Sprintf("cursor is hidden, the application requested it at row %d col %d", m.curRow, m.curCol)
	case m.curVisible && (row != m.curRow || col != m.curCol):
		return fmt.Sprintf("cursor at row %d col %d, requested row %d col %d", row, col, m.curRow, m.curCol)
	case m.curVisible && style != int(m.curStyle):
		return fmt.Sprintf("cursor shape %d, requested %d", style, m.curStyle)
	}
	return ""
}

func (w *nestedWorld) Finish(s *simrt.Sched, res *RunResult) {
	taskPanics(s, res, "panic")
	if w.prop == "C12" {
		res.Nontrivial = len(w.frames) > 1
	} else {
		res.Nontrivial = len(w.items) > 2
	}
	res.EndState = fmt.Sprintf("%s checked=%d fwd=%d", s.End, w.checked, w.fwdDone)
	if res.Probes == nil {
		res.Probes = map[string]int{}
	}
	res.Probes["frames-compared"] += w.checked
	if w.host != nil {
		res.Probes["with-host"]++
	}
	if s.End != simrt.EndFinished {
		res.Violate("stuck", "session", "the nested session did not complete (%s): %v\ncase: %s", s.End, s.Picture(), toJSON(w.Describe()))
	}
}
