package worlds

import (
	"fmt"
	"io"
	"time"

	"git.sr.ht/~rockorager/vaxis"
	"git.sr.ht/~rockorager/vaxis/simrt"
	"github.com/containerd/console"

	"simharness/simterm"
)

// ------------------------------------------------------------------ console

// simConsole is the console.Console handed to vaxis.New (Options.WithConsole,
// the repository's own seam). Writes go to the terminal task's inbox, reads
// come from the wire task; both are reliable FIFOs.
type simConsole struct {
	env     *sessionEnv
	toApp   [][]byte
	cur     []byte
	closed  bool
	closes  int
	raws    int
	resets  int
	written int
	readers int
}

func (c *simConsole) SimName() string { return "console" }

func (c *simConsole) Read(p []byte) (int, error) {
	if len(c.cur) == 0 && len(c.toApp) == 0 && !c.closed {
		simrt.WaitUntil(c, "console.Read", func() bool { return len(c.toApp) > 0 || c.closed })
	} else {
		simrt.Yield("console.Read")
	}
	if len(c.cur) == 0 && len(c.toApp) > 0 {
		c.cur = c.toApp[0]
		c.toApp = c.toApp[1:]
	}
	if len(c.cur) > 0 {
		n := copy(p, c.cur)
		c.cur = c.cur[n:]
		return n, nil
	}
	return 0, io.EOF
}

func (c *simConsole) Write(p []byte) (int, error) {
	simrt.Yield("console.Write")
	if c.closed {
		// a write to a closed descriptor fails: nothing reaches the terminal
		c.env.lateWrites += len(p)
		return 0, io.ErrClosedPipe
	}
	c.written += len(p)
	c.env.toTerm = append(c.env.toTerm, append([]byte(nil), p...))
	simrt.Notify(c.env.termBox)
	return len(p), nil
}

func (c *simConsole) Close() error {
	c.closes++
	c.closed = true
	simrt.Notify(c)
	return nil
}
func (c *simConsole) Fd() uintptr                      { return ^uintptr(0) }
func (c *simConsole) Name() string                     { return "sim" }
func (c *simConsole) Resize(console.WinSize) error     { return nil }
func (c *simConsole) ResizeFrom(console.Console) error { return nil }
func (c *simConsole) SetRaw() error                    { c.raws++; return nil }
func (c *simConsole) DisableEcho() error               { return nil }
func (c *simConsole) Reset() error                     { c.resets++; return nil }
func (c *simConsole) Size() (console.WinSize, error) {
	t := c.env.term
	return console.WinSize{Height: uint16(t.Rows), Width: uint16(t.Cols)}, nil
}

// --------------------------------------------------------------- environment

type wireItem struct {
	data  []byte
	delay time.Duration // minimum delay after the previous item was delivered / since enqueue
	at    time.Duration
	split int // chunking mode
	tag   string
}

type box struct{ name string }

func (b *box) SimName() string { return b.name }

// sessionEnv wires one Vaxis instance to one reference terminal.
type sessionEnv struct {
	s       *simrt.Sched
	res     *RunResult
	term    *simterm.Term
	con     *simConsole
	toTerm  [][]byte
	termBox *box
	wire    []wireItem
	wireBox *box
	idleBox *box

	termBusy   bool
	wireBusy   bool
	stop       bool
	lateWrites int

	// reply policy
	replyDelay func(kind string) (time.Duration, bool) // delay, drop
	chunkMode  int
	onFeed     func(chunk []byte) // observer (after the terminal consumed a chunk)
	termBytes  int
	capture    bool
	// deliveredAt: when the last reply of each kind was handed to the
	// application's console (replies queue behind each other: FIFO)
	deliveredAt map[string]time.Duration
}

func newSessionEnv(s *simrt.Sched, res *RunResult, rows, cols int, caps simterm.Caps) *sessionEnv {
	e := &sessionEnv{s: s, res: res, termBox: &box{"term-inbox"}, wireBox: &box{"wire"}, idleBox: &box{"idle"}}
	e.term = simterm.NewTerm(rows, cols, caps)
	e.con = &simConsole{env: e}
	return e
}

// start launches the terminal and wire tasks.
func (e *sessionEnv) start() {
	e.s.Go("terminal", e.termTask)
	e.s.Go("wire", e.wireTask)
}

func (e *sessionEnv) shutdown() {
	e.stop = true
	simrt.Notify(e.termBox)
	simrt.Notify(e.wireBox)
}

func (e *sessionEnv) termTask() {
	for {
		simrt.WaitUntil(e.termBox, "terminal.wait", func() bool { return len(e.toTerm) > 0 || e.stop })
		if len(e.toTerm) == 0 && e.stop {
			return
		}
		e.termBusy = true
		chunk := e.toTerm[0]
		e.toTerm = e.toTerm[1:]
		e.termBytes += len(chunk)
		if e.capture {
			e.res.Diag = append(e.res.Diag, fmt.Sprintf("t=%v app->term %q", e.s.Now(), chunk))
		}
		for _, r := range e.term.FeedReplies(chunk) {
			d, drop := time.Duration(0), false
			if e.replyDelay != nil {
				d, drop = e.replyDelay(r.Kind)
			}
			if drop {
				e.res.Fault("reply-dropped")
				continue
			}
			e.sendTagged([]byte(r.Data), d, r.Kind)
		}
		if e.onFeed != nil {
			e.onFeed(chunk)
		}
		e.termBusy = false
		simrt.Notify(e.idleBox)
		simrt.Yield("terminal.fed")
	}
}

// send queues bytes from the terminal to the application.
func (e *sessionEnv) send(data []byte, delay time.Duration) { e.sendTagged(data, delay, "") }

func (e *sessionEnv) sendTagged(data []byte, delay time.Duration, tag string) {
	if len(data) == 0 {
		return
	}
	e.wire = append(e.wire, wireItem{data: data, delay: delay, at: e.s.Now() + delay, split: e.chunkMode, tag: tag})
	simrt.Notify(e.wireBox)
}

func (e *sessionEnv) wireTask() {
	for {
		simrt.WaitUntil(e.wireBox, "wire.wait", func() bool { return len(e.wire) > 0 || e.stop })
		if len(e.wire) == 0 && e.stop {
			return
		}
		e.wireBusy = true
		it := e.wire[0]
		e.wire = e.wire[1:]
		if d := it.at - e.s.Now(); d > 0 {
			simrt.Sleep(d)
		}
		data := it.data
		for len(data) > 0 {
			n := len(data)
			switch it.split {
			case 1:
				n = 1
			case 2:
				n = 1 + e.s.Tape.Draw(4)
			case 3:
				n = 1 + e.s.Tape.Draw(len(data))
			}
			if n > len(data) {
				n = len(data)
			}
			if n < len(data) {
				e.res.Fault("input-chunk-split")
			}
			e.con.toApp = append(e.con.toApp, data[:n])
			data = data[n:]
			simrt.Notify(e.con)
			if len(data) > 0 {
				simrt.Yield("wire.chunk")
			}
		}
		if it.tag != "" {
			if e.deliveredAt == nil {
				e.deliveredAt = map[string]time.Duration{}
			}
			e.deliveredAt[it.tag] = e.s.Now()
		}
		e.wireBusy = false
		simrt.Notify(e.idleBox)
	}
}

// quiesce waits until the terminal has consumed every byte written so far and
// everything it sent has been handed to the console.
func (e *sessionEnv) quiesce() {
	simrt.WaitUntil(e.idleBox, "quiesce", func() bool {
		return len(e.toTerm) == 0 && !e.termBusy
	})
}

// settle additionally waits for the wire to drain and for the application side
// to have read it.
func (e *sessionEnv) settle() {
	for i := 0; i < 5; i++ {
		simrt.WaitUntil(e.idleBox, "settle", func() bool {
			return len(e.toTerm) == 0 && !e.termBusy && len(e.wire) == 0 && !e.wireBusy
		})
		if len(e.con.toApp) == 0 && len(e.con.cur) == 0 {
			simrt.Sleep(time.Millisecond)
			if len(e.toTerm) == 0 && len(e.wire) == 0 && len(e.con.toApp) == 0 && !e.termBusy && !e.wireBusy {
				return
			}
			continue
		}
		simrt.Sleep(time.Millisecond)
	}
}

// ------------------------------------------------------------ capabilities

// gating switches, in the bit order used by run indices
const (
	capRGB = 1 << iota
	capStyledUL
	capSync
	capKitty
	capUnicode
	capExplicitW
	capSixel
	capColorScheme
	capInBand
	capAppID
	numGating = 10
)

func capsFromBits(bits int, t *simrt.Tape) simterm.Caps {
	c := simterm.Caps{
		RGB:           bits&capRGB != 0,
		Sync:          bits&capSync != 0,
		KittyKbd:      bits&capKitty != 0,
		UnicodeCore:   bits&capUnicode != 0,
		ExplicitWidth: bits&capExplicitW != 0,
		Sixel:         bits&capSixel != 0,
		ColorScheme:   bits&capColorScheme != 0,
		InBandResize:  bits&capInBand != 0,
		AppID:         bits&capAppID != 0,
	}
	if bits&capStyledUL != 0 {
		if t.Draw(3) == 0 {
			c.VTE = true
		} else {
			c.Smulx = true
		}
	}
	// the non-gating switches at random
	r := t.Draw(1 << 8)
	c.OSC4 = r&1 != 0
	c.OSC10 = r&2 != 0
	c.OSC11 = r&4 != 0
	c.OSC52 = r&8 != 0
	c.SizeChars = r&16 != 0
	c.SizePixels = r&32 != 0
	c.CursorStyleRep = r&64 != 0
	c.KittyGraphics = r&128 != 0 && t.Draw(2) == 0
	c.NegTcap = t.Draw(3)
	switch t.Draw(5) {
	case 0:
		c.Name = ""
	case 1:
		c.Name = "foot(1.17.2)"
	case 2:
		c.Name = "XTerm(388)"
	case 3:
		c.Name = "WezTerm 20240203"
	default:
		c.Name = "sim 1.0"
	}
	// personality: a terminal with explicit-width text measures by cluster
	// natively; the others by wcwidth until mode 2027 is set
	if c.ExplicitWidth {
		c.Base = simterm.PUnicode
	} else {
		c.Base = simterm.PWcwidth
	}
	return c
}

func capsString(c simterm.Caps) string {
	s := ""
	add := func(b bool, n string) {
		if b {
			s += n + " "
		}
	}
	add(c.RGB, "rgb")
	add(c.Smulx, "smulx")
	add(c.VTE, "vte")
	add(c.Sync, "sync")
	add(c.KittyKbd, "kittykbd")
	add(c.UnicodeCore, "unicode-core")
	add(c.ExplicitWidth, "explicit-width")
	add(c.Sixel, "sixel")
	add(c.ColorScheme, "color-scheme")
	add(c.InBandResize, "in-band-resize")
	add(c.AppID, "app-id")
	add(c.OSC4, "osc4")
	add(c.OSC10, "osc10")
	add(c.OSC11, "osc11")
	add(c.OSC52, "osc52")
	add(c.SizeChars, "18t")
	add(c.SizePixels, "14t")
	add(c.CursorStyleRep, "decrqss")
	add(c.KittyGraphics, "kitty-graphics")
	return s + fmt.Sprintf("name=%q base=%d negtcap=%d", c.Name, c.Base, c.NegTcap)
}

// promptReplies answers every query within 0..5 ms.
func promptReplies(s *simrt.Sched) func(string) (time.Duration, bool) {
	lat := []time.Duration{0, 0, time.Millisecond, 2 * time.Millisecond, 4 * time.Millisecond, 5 * time.Millisecond}
	return func(kind string) (time.Duration, bool) {
		return lat[s.Tape.Draw(len(lat))], false
	}
}

func newVaxis(e *sessionEnv, opts vaxis.Options) (*vaxis.Vaxis, error) {
	opts.WithConsole = e.con
	return vaxis.New(opts)
}
