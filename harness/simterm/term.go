package simterm

import (
	"encoding/base64"
	"fmt"
	"sort"
	"strconv"
	"strings"
)

// Caps is what this terminal supports and therefore advertises.
type Caps struct {
	Sixel          bool // DA1 attribute 4, XTSMGRAPHICS reply, mode 8452
	Sync           bool // mode 2026 (DECRQM answers)
	UnicodeCore    bool // mode 2027
	ColorScheme    bool // mode 2031, DSR 996
	KittyKbd       bool
	KittyGraphics  bool
	NegTcap        int  // how an XTGETTCAP for a missing capability is answered: 0 as before (bare negative if any capability exists), 1 bare negative, 2 negative echoing the name
	RGB            bool // answers XTGETTCAP RGB; displays direct colour
	Smulx          bool // answers XTGETTCAP Smulx; displays styled/coloured underlines
	VTE            bool // tertiary DA "~VTE" (also styled underlines)
	InBandResize   bool // mode 2048
	ExplicitWidth  bool // OSC 66
	AppID          bool // OSC 176
	OSC4           bool
	OSC10          bool
	OSC11          bool
	OSC52          bool
	SizeChars      bool   // CSI 18 t
	SizePixels     bool   // CSI 14 t
	CursorStyleRep bool   // DECRQSS " q"
	Name           string // XTVERSION name ("" = no reply)
	NoCPR          bool
	NoDA1          bool
	Base           Personality // how text is measured before any mode is set
}

func (c Caps) StyledUnderline() bool { return c.Smulx || c.VTE }

// Use records one use of a capability-gated feature.
type Use struct {
	Feature string
	Seq     string
	Probe   bool // inside the start-up query batch (before the DA1 query)
}

type savedCursor struct {
	r, c  int
	pen   Style
	valid bool
}

// Placement is one graphics placement the terminal currently shows.
type GraphicsEvent struct {
	Kind string // "kitty-transmit", "kitty-place", "kitty-delete", "sixel"
	ID   int
	Row  int
	Col  int
	Raw  string
}

// Term is the reference terminal.
type Term struct {
	Caps Caps
	p    *Parser

	Rows, Cols int
	CellW      int // pixels per cell (for size reports)
	CellH      int
	primary    *Screen
	alt        *Screen
	onAlt      bool

	R, C        int
	pendingWrap bool
	savedR      int
	savedC      int
	savedPen    Style
	saved       bool
	altSaved    savedCursor // DECSC slot of the alternate screen
	Pen         Style
	top, bot    int // scroll region, inclusive, 0-based

	CursorVisible  bool
	CursorStyle    int
	Modes          map[int]bool
	KeypadApp      bool
	KittyStack     []int
	KittyFlags     int
	PointerShape   string
	AppIDValue     string
	Title          string
	InsertMode     bool
	SyncDepth      int
	SyncUnbalanced int
	Bells          int
	Clipboard      string
	Notifications  []string

	lastPrintValid bool
	lastR, lastC   int

	Uses       []Use
	startup    bool // inside the start-up query batch
	DA1Queries int
	Graphics   []GraphicsEvent
	Unknown    []string // sequences outside the vocabulary this terminal knows
	Palette    [256]uint32
	FgColor    uint32
	BgColor    uint32
	Theme      int // 1 dark, 2 light

	// reply behaviour
	out     []byte
	replies []Reply
}

// XtermPalette is the standard 256-colour palette generated from its
// definition: 16 system colours, a 6x6x6 cube with levels 0,95,135,175,215,255
// and a 24-step grey ramp 8+10k.
func XtermPalette() [256]uint32 {
	var p [256]uint32
	sys := []uint32{0x000000, 0x800000, 0x008000, 0x808000, 0x000080, 0x800080, 0x008080, 0xc0c0c0,
		0x808080, 0xff0000, 0x00ff00, 0xffff00, 0x0000ff, 0xff00ff, 0x00ffff, 0xffffff}
	copy(p[:16], sys)
	lv := []uint32{0, 95, 135, 175, 215, 255}
	for r := 0; r < 6; r++ {
		for g := 0; g < 6; g++ {
			for b := 0; b < 6; b++ {
				p[16+36*r+6*g+b] = lv[r]<<16 | lv[g]<<8 | lv[b]
			}
		}
	}
	for k := 0; k < 24; k++ {
		v := uint32(8 + 10*k)
		p[232+k] = v<<16 | v<<8 | v
	}
	return p
}

func NewTerm(rows, cols int, caps Caps) *Term {
	t := &Term{Caps: caps, p: NewParser(), Rows: rows, Cols: cols, CellW: 8, CellH: 16}
	t.primary = newScreen(rows, cols)
	t.alt = newScreen(rows, cols)
	t.Modes = map[int]bool{7: true, 25: true}
	t.CursorVisible = true
	t.top, t.bot = 0, rows-1
	t.PointerShape = "text"
	t.Palette = XtermPalette()
	t.FgColor, t.BgColor = 0xd0d0d0, 0x101010
	t.Theme = 1
	t.startup = true
	return t
}

func (t *Term) scr() *Screen {
	if t.onAlt {
		return t.alt
	}
	return t.primary
}

func (t *Term) OnAlt() bool { return t.onAlt }

// Cell returns a display cell of the active screen.
func (t *Term) Cell(r, c int) Cell { return t.scr().Cells[r][c] }

func (t *Term) personality() Personality {
	if t.Caps.UnicodeCore && t.Modes[2027] {
		return PUnicode
	}
	return t.Caps.Base
}

// Personality is how the terminal measures text right now.
func (t *Term) CurrentPersonality() Personality { return t.personality() }

// Reply is one report the terminal sends, tagged with what it answers.
type Reply struct {
	Kind string
	Data string
}

func (t *Term) reply(s string) {
	t.out = append(t.out, s...)
	t.replies = append(t.replies, Reply{Kind: replyKind(s), Data: s})
}

func replyKind(s string) string {
	switch {
	case strings.HasSuffix(s, "R"):
		return "CPR"
	case strings.HasPrefix(s, "\x1b[?") && strings.HasSuffix(s, "c"):
		return "DA1"
	case strings.HasSuffix(s, "$y"):
		return "DECRPM"
	case strings.HasPrefix(s, "\x1bP>|"):
		return "XTVERSION"
	case strings.HasPrefix(s, "\x1bP!|"):
		return "DA3"
	case strings.HasPrefix(s, "\x1b[?") && strings.HasSuffix(s, "u"):
		return "KITTY-KBD"
	case strings.HasPrefix(s, "\x1b_G"):
		return "KITTY-GFX"
	case strings.HasPrefix(s, "\x1b[?") && strings.HasSuffix(s, "S"):
		return "XTSMGRAPHICS"
	case strings.HasPrefix(s, "\x1b[4;"):
		return "SIZE-PX"
	case strings.HasPrefix(s, "\x1b[8;"):
		return "SIZE-CH"
	case strings.HasPrefix(s, "\x1b[48;"):
		return "IN-BAND-SIZE"
	case strings.HasPrefix(s, "\x1bP") && strings.Contains(s, "+r"):
		return "XTGETTCAP"
	case strings.HasPrefix(s, "\x1bP") && strings.Contains(s, "$r"):
		return "DECRPSS"
	case strings.HasPrefix(s, "\x1b]4;"):
		return "OSC4"
	case strings.HasPrefix(s, "\x1b]10;"):
		return "OSC10"
	case strings.HasPrefix(s, "\x1b]11;"):
		return "OSC11"
	case strings.HasPrefix(s, "\x1b]52;"):
		return "OSC52"
	case strings.HasPrefix(s, "\x1b]176;"):
		return "OSC176"
	case strings.HasPrefix(s, "\x1b[?997"):
		return "COLOR-SCHEME"
	}
	return "OTHER"
}

// FeedReplies is Feed, returning the reports one by one.
func (t *Term) FeedReplies(b []byte) []Reply {
	t.replies = nil
	t.Feed(b)
	r := t.replies
	t.replies = nil
	return r
}

// Feed interprets bytes written to the terminal and returns the bytes the
// terminal sends back (replies to queries), in order.
func (t *Term) Feed(b []byte) []byte {
	t.out = t.out[:0]
	t.p.Sink = t.dispatch
	t.p.Feed(b)
	return append([]byte(nil), t.out...)
}

func (t *Term) use(feature, seq string) {
	t.Uses = append(t.Uses, Use{Feature: feature, Seq: seq, Probe: t.startup})
}

func itemString(it Item) string {
	switch it.Kind {
	case KCSI:
		var ps []string
		for _, p := range it.Params {
			var sub []string
			for _, v := range p {
				sub = append(sub, strconv.Itoa(v))
			}
			ps = append(ps, strings.Join(sub, ":"))
		}
		pre, post := "", ""
		for _, c := range it.Inter {
			if c >= 0x3c && c <= 0x3f {
				pre += string(rune(c))
			} else {
				post += string(rune(c))
			}
		}
		return "CSI " + pre + strings.Join(ps, ";") + post + string(rune(it.Final))
	case KESC:
		return "ESC " + string(it.Inter) + string(rune(it.Final))
	case KOSC:
		return "OSC " + string(it.Data)
	case KDCS:
		return "DCS " + string(it.Inter) + string(rune(it.Final)) + " " + string(it.Data)
	case KAPC:
		return "APC " + string(it.Data)
	case KC0:
		return fmt.Sprintf("C0 %#x", it.Rune)
	}
	return it.Kind.String()
}

func (t *Term) dispatch(it Item) {
	switch it.Kind {
	case KText:
		t.printRune(it.Rune)
		return
	case KTaint:
		t.Unknown = append(t.Unknown, "undefined input inside a sequence header")
		return
	}
	switch it.Kind {
	case KC0:
		t.c0(it.Rune)
	case KESC:
		t.esc(it)
	case KCSI:
		t.csi(it)
	case KOSC:
		t.osc(it)
	case KDCS:
		t.dcs(it)
	case KAPC:
		t.apc(it)
	case KSS3:
		t.Unknown = append(t.Unknown, itemString(it))
	}
	if it.Kind != KC0 || (it.Rune != 0 && it.Rune != 0x07) {
		t.lastPrintValid = false
	}
}

func (t *Term) c0(r rune) {
	switch r {
	case 0x07:
		t.Bells++
	case 0x08:
		if t.C > 0 {
			t.C--
		}
		t.pendingWrap = false
	case 0x09:
		c := (t.C/8 + 1) * 8
		if c > t.Cols-1 {
			c = t.Cols - 1
		}
		t.C = c
	case 0x0a, 0x0b, 0x0c:
		t.lineFeed()
	case 0x0d:
		t.C = 0
		t.pendingWrap = false
	}
}

func (t *Term) lineFeed() {
	t.pendingWrap = false
	if t.R == t.bot {
		t.scrollUp(1)
	} else if t.R < t.Rows-1 {
		t.R++
	}
}

func (t *Term) reverseIndex() {
	t.pendingWrap = false
	if t.R == t.top {
		t.scrollDown(1)
	} else if t.R > 0 {
		t.R--
	}
}

func (t *Term) scrollUp(n int) {
	s := t.scr()
	for ; n > 0; n-- {
		copy(s.Cells[t.top:t.bot], s.Cells[t.top+1:t.bot+1])
		s.Cells[t.bot] = blankRow(t.Cols, t.Pen)
	}
}

func (t *Term) scrollDown(n int) {
	s := t.scr()
	for ; n > 0; n-- {
		copy(s.Cells[t.top+1:t.bot+1], s.Cells[t.top:t.bot])
		s.Cells[t.top] = blankRow(t.Cols, t.Pen)
	}
}

// printRune places one scalar according to the terminal's personality.
func (t *Term) printRune(r rune) {
	p := t.personality()
	s := t.scr()
	if t.lastPrintValid {
		// does it extend the glyph just printed?
		prev := s.Cells[t.lastR][t.lastC]
		comb := prev.G + string(r)
		pcs := Layout(p, comb)
		extends := len(pcs) == 1
		if !extends && p != PUnicode {
			extends = true
			for _, pc := range pcs[1:] {
				if pc.W != 0 {
					extends = false
				}
			}
		}
		if extends {
			w := pcs[0].W
			if w < 1 {
				w = 1
			}
			if w != prev.W {
				// the glyph grew (e.g. a variation selector made it wide)
				t.R, t.C = t.lastR, t.lastC
				t.pendingWrap = false
				t.place(comb, w)
				return
			}
			prev.G = comb
			s.Cells[t.lastR][t.lastC] = prev
			return
		}
	}
	pcs := Layout(p, string(r))
	w := 0
	if len(pcs) > 0 {
		w = pcs[0].W
	}
	if w == 0 {
		// a zero-width scalar with nothing just printed before it: where it
		// lands is terminal-specific
		c := t.C
		if !t.pendingWrap && c > 0 {
			c--
		}
		cell := s.Cells[t.R][c]
		for c > 0 && cell.W == 0 {
			c--
			cell = s.Cells[t.R][c]
		}
		cell.Unspec = true
		s.Cells[t.R][c] = cell
		return
	}
	t.place(string(r), w)
}

// place puts a glyph of width w at the cursor and advances.
func (t *Term) place(g string, w int) {
	s := t.scr()
	if t.pendingWrap && t.Modes[7] {
		t.pendingWrap = false
		t.C = 0
		if t.R == t.bot {
			t.scrollUp(1)
		} else if t.R < t.Rows-1 {
			t.R++
		}
	}
	if w > t.Cols {
		w = t.Cols
	}
	if t.C+w > t.Cols {
		// the glyph does not fit in the rest of the row: terminal-specific
		for c := t.C; c < t.Cols; c++ {
			s.breakWide(t.R, c)
			s.Cells[t.R][c] = Cell{W: 1, Unspec: true, Style: t.Pen}
		}
		if t.Modes[7] {
			t.C = 0
			if t.R == t.bot {
				t.scrollUp(1)
			} else if t.R < t.Rows-1 {
				t.R++
			}
		} else {
			t.C = t.Cols - w
		}
	}
	if t.InsertMode {
		row := s.Cells[t.R]
		if row[t.C].W == 0 {
			s.breakWide(t.R, t.C)
		}
		copy(row[t.C+w:], row[t.C:t.Cols-w])
		for c := t.C; c < t.C+w; c++ {
			row[c] = Cell{W: 1}
		}
		// a wide glyph pushed half-way over the right edge
		if row[t.Cols-1].W >= 2 {
			row[t.Cols-1] = Cell{W: 1, Unspec: true}
		}
	}
	for c := t.C; c < t.C+w; c++ {
		s.breakWide(t.R, c)
	}
	s.Cells[t.R][t.C] = Cell{G: g, W: w, Style: t.Pen}
	for c := t.C + 1; c < t.C+w; c++ {
		s.Cells[t.R][c] = Cell{W: 0, Style: t.Pen}
	}
	t.lastR, t.lastC, t.lastPrintValid = t.R, t.C, true
	t.C += w
	if t.C >= t.Cols {
		t.C = t.Cols - 1
		t.pendingWrap = t.Modes[7]
	}
}

func (t *Term) esc(it Item) {
	if len(it.Inter) == 0 {
		switch it.Final {
		case '7':
			t.decsc()
		case '8':
			t.decrc()
		case '=':
			t.KeypadApp = true
		case '>':
			t.KeypadApp = false
		case 'D':
			t.lineFeed()
		case 'E':
			t.lineFeed()
			t.C = 0
		case 'M':
			t.reverseIndex()
		case 'c':
			t.fullReset()
		case '\\':
		default:
			t.Unknown = append(t.Unknown, itemString(it))
		}
		return
	}
	if len(it.Inter) == 1 && (it.Inter[0] == '(' || it.Inter[0] == ')' || it.Inter[0] == '*' || it.Inter[0] == '+') {
		return // character set designation: ignored
	}
	t.Unknown = append(t.Unknown, itemString(it))
}

// decsc / decrc: each screen has its own saved-cursor slot (xterm). With
// nothing saved DECRC homes the cursor and resets the rendition (VT510).
func (t *Term) decsc() {
	if t.onAlt {
		t.altSaved = savedCursor{t.R, t.C, t.Pen, true}
		return
	}
	t.savedR, t.savedC, t.savedPen, t.saved = t.R, t.C, t.Pen, true
}

func (t *Term) decrc() {
	link, lp := t.Pen.LinkURI, t.Pen.LinkParams
	switch {
	case t.onAlt && t.altSaved.valid:
		t.R, t.C, t.Pen = t.altSaved.r, t.altSaved.c, t.altSaved.pen
	case !t.onAlt && t.saved:
		t.R, t.C, t.Pen = t.savedR, t.savedC, t.savedPen
	default:
		t.R, t.C, t.Pen = 0, 0, Style{}
	}
	t.Pen.LinkURI, t.Pen.LinkParams = link, lp
	t.clampCursor()
	t.pendingWrap = false
}

func (t *Term) fullReset() {
	caps := t.Caps
	n := NewTerm(t.Rows, t.Cols, caps)
	n.Uses, n.startup, n.DA1Queries, n.Graphics, n.Unknown = t.Uses, t.startup, t.DA1Queries, t.Graphics, t.Unknown
	n.p = t.p
	n.out = t.out
	*t = *n
}

func (t *Term) clampCursor() {
	if t.R < 0 {
		t.R = 0
	}
	if t.R > t.Rows-1 {
		t.R = t.Rows - 1
	}
	if t.C < 0 {
		t.C = 0
	}
	if t.C > t.Cols-1 {
		t.C = t.Cols - 1
	}
}

func param(it Item, i, def int) int {
	if i < len(it.Params) && len(it.Params[i]) > 0 && it.Params[i][0] != 0 {
		return it.Params[i][0]
	}
	return def
}

func paramRaw(it Item, i int) (int, bool) {
	if i < len(it.Params) && len(it.Params[i]) > 0 {
		return it.Params[i][0], true
	}
	return 0, false
}

func private(it Item) byte {
	if len(it.Inter) > 0 && it.Inter[0] >= 0x3c && it.Inter[0] <= 0x3f {
		return it.Inter[0]
	}
	return 0
}

func trailing(it Item) string {
	s := ""
	for _, c := range it.Inter {
		if c < 0x3c || c > 0x3f {
			s += string(rune(c))
		}
	}
	return s
}

func (t *Term) originTop() int {
	if t.Modes[6] {
		return t.top
	}
	return 0
}

func (t *Term) csi(it Item) {
	priv := private(it)
	tr := trailing(it)
	s := t.scr()
	if priv == 0 && tr == "" {
		switch it.Final {
		case 'A':
			n := param(it, 0, 1)
			lim := 0
			if t.R >= t.top {
				lim = t.top
			}
			t.R -= n
			if t.R < lim {
				t.R = lim
			}
			t.pendingWrap = false
		case 'B', 'e':
			n := param(it, 0, 1)
			lim := t.Rows - 1
			if t.R <= t.bot {
				lim = t.bot
			}
			t.R += n
			if t.R > lim {
				t.R = lim
			}
			t.pendingWrap = false
		case 'C', 'a':
			t.C += param(it, 0, 1)
			t.clampCursor()
			t.pendingWrap = false
		case 'D':
			t.C -= param(it, 0, 1)
			t.clampCursor()
			t.pendingWrap = false
		case 'E':
			n := param(it, 0, 1)
			lim := t.Rows - 1
			if t.R <= t.bot {
				lim = t.bot
			}
			t.R += n
			if t.R > lim {
				t.R = lim
			}
			t.C = 0
			t.pendingWrap = false
		case 'F':
			n := param(it, 0, 1)
			lim := 0
			if t.R >= t.top {
				lim = t.top
			}
			t.R -= n
			if t.R < lim {
				t.R = lim
			}
			t.C = 0
			t.pendingWrap = false
		case 'G', '`':
			t.C = param(it, 0, 1) - 1
			t.clampCursor()
			t.pendingWrap = false
		case 'd':
			t.R = t.originTop() + param(it, 0, 1) - 1
			t.clampRowOrigin()
			t.pendingWrap = false
		case 'H', 'f':
			t.R = t.originTop() + param(it, 0, 1) - 1
			t.C = param(it, 1, 1) - 1
			t.clampRowOrigin()
			t.clampCursor()
			t.pendingWrap = false
		case 'J':
			n, _ := paramRaw(it, 0)
			switch n {
			case 0:
				s.erase(t.R, t.C, t.Cols, t.Pen)
				for r := t.R + 1; r < t.Rows; r++ {
					s.erase(r, 0, t.Cols, t.Pen)
				}
			case 1:
				for r := 0; r < t.R; r++ {
					s.erase(r, 0, t.Cols, t.Pen)
				}
				s.erase(t.R, 0, t.C+1, t.Pen)
			case 2, 3:
				for r := 0; r < t.Rows; r++ {
					s.erase(r, 0, t.Cols, t.Pen)
				}
			}
		case 'K':
			n, _ := paramRaw(it, 0)
			switch n {
			case 0:
				s.erase(t.R, t.C, t.Cols, t.Pen)
			case 1:
				s.erase(t.R, 0, t.C+1, t.Pen)
			case 2:
				s.erase(t.R, 0, t.Cols, t.Pen)
			}
		case 'X':
			s.erase(t.R, t.C, t.C+param(it, 0, 1), t.Pen)
		case '@':
			t.insertChars(param(it, 0, 1))
		case 'P':
			t.deleteChars(param(it, 0, 1))
		case 'L':
			t.insertLines(param(it, 0, 1))
		case 'M':
			t.deleteLines(param(it, 0, 1))
		case 'S':
			t.scrollUp(min(param(it, 0, 1), t.Rows))
		case 'T':
			t.scrollDown(min(param(it, 0, 1), t.Rows))
		case 'r':
			top := param(it, 0, 1)
			bot := param(it, 1, t.Rows)
			if bot > t.Rows {
				bot = t.Rows
			}
			if top < bot {
				t.top, t.bot = top-1, bot-1
				t.R, t.C = t.originTop(), 0
				t.pendingWrap = false
			}
		case 'm':
			t.sgr(it)
		case 'h', 'l':
			for i := range it.Params {
				if v, ok := paramRaw(it, i); ok && v == 4 {
					t.InsertMode = it.Final == 'h'
				}
			}
		case 'n':
			if v, _ := paramRaw(it, 0); v == 6 {
				if !t.Caps.NoCPR {
					r := t.R + 1
					if t.Modes[6] {
						r -= t.top
					}
					t.reply(fmt.Sprintf("\x1b[%d;%dR", r, t.C+1))
				}
			} else if v == 5 {
				t.reply("\x1b[0n")
			}
		case 'c':
			if v, _ := paramRaw(it, 0); v == 0 {
				t.DA1Queries++
				t.startup = false
				if !t.Caps.NoDA1 {
					if t.Caps.Sixel {
						t.reply("\x1b[?62;4;22c")
					} else {
						t.reply("\x1b[?62;22c")
					}
				}
			}
		case 't':
			v, _ := paramRaw(it, 0)
			switch v {
			case 14:
				if t.Caps.SizePixels {
					t.reply(fmt.Sprintf("\x1b[4;%d;%dt", t.Rows*t.CellH, t.Cols*t.CellW))
				}
			case 18:
				if t.Caps.SizeChars {
					t.reply(fmt.Sprintf("\x1b[8;%d;%dt", t.Rows, t.Cols))
				}
			}
		case 's':
			t.decsc()
		case 'u':
			t.decrc()
		default:
			t.Unknown = append(t.Unknown, itemString(it))
		}
		return
	}
	switch {
	case priv == '?' && tr == "" && (it.Final == 'h' || it.Final == 'l'):
		for i := range it.Params {
			if v, ok := paramRaw(it, i); ok {
				t.decMode(v, it.Final == 'h', itemString(it))
			}
		}
	case priv == '?' && tr == "$" && it.Final == 'p':
		m, _ := paramRaw(it, 0)
		t.decrqm(m)
	case priv == '?' && tr == "" && it.Final == 'u':
		if t.Caps.KittyKbd {
			t.reply(fmt.Sprintf("\x1b[?%du", t.KittyFlags))
		}
	case priv == '>' && tr == "" && it.Final == 'u':
		t.use("kitty-keyboard", itemString(it))
		if t.Caps.KittyKbd {
			t.KittyStack = append(t.KittyStack, t.KittyFlags)
			t.KittyFlags = param(it, 0, 0)
		}
	case priv == '<' && tr == "" && it.Final == 'u':
		t.use("kitty-keyboard", itemString(it))
		if t.Caps.KittyKbd {
			for n := param(it, 0, 1); n > 0; n-- {
				if len(t.KittyStack) == 0 {
					t.KittyFlags = 0
					break
				}
				t.KittyFlags = t.KittyStack[len(t.KittyStack)-1]
				t.KittyStack = t.KittyStack[:len(t.KittyStack)-1]
			}
		}
	case priv == '=' && tr == "" && it.Final == 'u':
		t.use("kitty-keyboard", itemString(it))
		if t.Caps.KittyKbd {
			t.KittyFlags = param(it, 0, 0)
		}
	case priv == '>' && tr == "" && it.Final == 'q':
		if t.Caps.Name != "" {
			t.reply("\x1bP>|" + t.Caps.Name + "\x1b\\")
		}
	case priv == '=' && tr == "" && it.Final == 'c':
		if t.Caps.VTE {
			t.reply("\x1bP!|7E565445\x1b\\")
		} else if t.Caps.Name != "" {
			t.reply("\x1bP!|00000000\x1b\\")
		}
	case priv == '>' && tr == "" && it.Final == 'c':
		t.reply("\x1b[>1;4000;0c")
	case priv == '?' && tr == "" && it.Final == 'S':
		// XTSMGRAPHICS
		if t.Caps.Sixel {
			pi, _ := paramRaw(it, 0)
			t.reply(fmt.Sprintf("\x1b[?%d;0;%d;%dS", pi, t.Cols*t.CellW, t.Rows*t.CellH))
		}
	case priv == '?' && tr == "" && it.Final == 'n':
		if v, _ := paramRaw(it, 0); v == 996 {
			t.use("color-scheme", itemString(it))
			if t.Caps.ColorScheme {
				t.reply(fmt.Sprintf("\x1b[?997;%dn", t.Theme))
			}
		}
	case priv == 0 && tr == " " && it.Final == 'q':
		t.CursorStyle = param(it, 0, 0)
	case priv == 0 && tr == "!" && it.Final == 'p':
		// soft reset
		t.Pen = Style{}
		t.Modes[6], t.Modes[7] = false, true
		t.InsertMode = false
		t.top, t.bot = 0, t.Rows-1
		t.CursorVisible = true
		t.Modes[25] = true
	default:
		t.Unknown = append(t.Unknown, itemString(it))
	}
}

func (t *Term) clampRowOrigin() {
	if t.Modes[6] {
		if t.R < t.top {
			t.R = t.top
		}
		if t.R > t.bot {
			t.R = t.bot
		}
	}
	t.clampCursor()
}

func (t *Term) insertChars(n int) {
	s := t.scr()
	row := s.Cells[t.R]
	if n > t.Cols-t.C {
		n = t.Cols - t.C
	}
	if row[t.C].W == 0 {
		s.breakWide(t.R, t.C)
	}
	copy(row[t.C+n:], row[t.C:t.Cols-n])
	for c := t.C; c < t.C+n; c++ {
		row[c] = Cell{W: 1, Style: Style{Bg: t.Pen.Bg}}
	}
	t.fixRowEnd(row)
	t.pendingWrap = false
}

func (t *Term) deleteChars(n int) {
	s := t.scr()
	row := s.Cells[t.R]
	if n > t.Cols-t.C {
		n = t.Cols - t.C
	}
	if row[t.C].W == 0 {
		s.breakWide(t.R, t.C)
	}
	if t.C+n < t.Cols && row[t.C+n].W == 0 {
		// the left half is deleted, the right half survives
		row[t.C+n] = Cell{W: 1, Unspec: true, Style: row[t.C+n].Style}
	}
	copy(row[t.C:], row[t.C+n:])
	for c := t.Cols - n; c < t.Cols; c++ {
		row[c] = Cell{W: 1, Style: Style{Bg: t.Pen.Bg}}
	}
	t.pendingWrap = false
}

// fixRowEnd repairs a wide glyph that lost its right half at the row's end.
func (t *Term) fixRowEnd(row []Cell) {
	last := len(row) - 1
	if row[last].W >= 2 {
		row[last] = Cell{W: 1, Unspec: true, Style: row[last].Style}
	}
}

func (t *Term) insertLines(n int) {
	if t.R < t.top || t.R > t.bot {
		return
	}
	s := t.scr()
	if n > t.bot-t.R+1 {
		n = t.bot - t.R + 1
	}
	for ; n > 0; n-- {
		copy(s.Cells[t.R+1:t.bot+1], s.Cells[t.R:t.bot])
		s.Cells[t.R] = blankRow(t.Cols, t.Pen)
	}
	t.C = 0
	t.pendingWrap = false
}

func (t *Term) deleteLines(n int) {
	if t.R < t.top || t.R > t.bot {
		return
	}
	s := t.scr()
	if n > t.bot-t.R+1 {
		n = t.bot - t.R + 1
	}
	for ; n > 0; n-- {
		copy(s.Cells[t.R:t.bot], s.Cells[t.R+1:t.bot+1])
		s.Cells[t.bot] = blankRow(t.Cols, t.Pen)
	}
	t.C = 0
	t.pendingWrap = false
}

var gatedModes = map[int]string{2026: "synchronized-output", 2027: "unicode-core", 2031: "color-scheme", 2048: "in-band-resize", 8452: "sixel-scrolling"}

func (t *Term) supportsMode(m int) bool {
	switch m {
	case 2026:
		return t.Caps.Sync
	case 2027:
		return t.Caps.UnicodeCore
	case 2031:
		return t.Caps.ColorScheme
	case 2048:
		return t.Caps.InBandResize
	case 8452:
		return t.Caps.Sixel
	}
	return true
}

func (t *Term) decMode(m int, set bool, seq string) {
	if f, ok := gatedModes[m]; ok {
		t.use(f, seq)
		if !t.supportsMode(m) {
			return
		}
	}
	switch m {
	case 25:
		t.CursorVisible = set
		t.Modes[25] = set
	case 47, 1047:
		t.switchScreen(set, false)
	case 1049:
		if set {
			if !t.onAlt {
				t.savedR, t.savedC, t.savedPen, t.saved = t.R, t.C, t.Pen, true
			} else {
				t.altSaved = savedCursor{t.R, t.C, t.Pen, true}
			}
			t.switchScreen(true, true)
		} else {
			t.switchScreen(false, false)
			t.decrc()
		}
		t.Modes[1049] = set
	case 2026:
		if set {
			if t.Modes[2026] {
				t.SyncUnbalanced++
			}
			t.SyncDepth = 1
		} else {
			if !t.Modes[2026] {
				t.SyncUnbalanced++
			}
			t.SyncDepth = 0
		}
		t.Modes[m] = set
	case 2048:
		t.Modes[m] = set
		if set {
			t.reply(t.InBandReport())
		}
	case 6:
		t.Modes[6] = set
		t.R, t.C = t.originTop(), 0
		t.pendingWrap = false
	default:
		t.Modes[m] = set
	}
}

// InBandReport is the mode-2048 size report.
func (t *Term) InBandReport() string {
	return fmt.Sprintf("\x1b[48;%d;%d;%d;%dt", t.Rows, t.Cols, t.Rows*t.CellH, t.Cols*t.CellW)
}

func (t *Term) clearAlt() {
	t.alt = newScreen(t.Rows, t.Cols)
	for r := range t.alt.Cells {
		t.alt.Cells[r] = blankRow(t.Cols, t.Pen) // erased with the current background
	}
}

func (t *Term) switchScreen(toAlt, clear bool) {
	if toAlt == t.onAlt {
		if toAlt && clear {
			t.clearAlt()
		}
		return
	}
	t.onAlt = toAlt
	if toAlt && clear {
		t.clearAlt()
	}
	t.pendingWrap = false
	t.lastPrintValid = false
}

func (t *Term) decrqm(m int) {
	known := map[int]bool{1: true, 6: true, 7: true, 25: true, 1000: true, 1002: true, 1003: true, 1004: true, 1006: true, 1049: true, 2004: true}
	switch {
	case gatedModes[m] != "":
		if !t.supportsMode(m) {
			return // an unknown mode is not reported at all by this terminal
		}
	case !known[m]:
		t.reply(fmt.Sprintf("\x1b[?%d;0$y", m))
		return
	}
	v := 2
	if t.Modes[m] {
		v = 1
	}
	t.reply(fmt.Sprintf("\x1b[?%d;%d$y", m, v))
}

func (t *Term) osc(it Item) {
	data := string(it.Data)
	num := data
	rest := ""
	if i := strings.IndexByte(data, ';'); i >= 0 {
		num, rest = data[:i], data[i+1:]
	}
	switch num {
	case "0", "2":
		t.Title = rest
	case "1":
	case "4":
		parts := strings.Split(rest, ";")
		if len(parts) == 2 && parts[1] == "?" && t.Caps.OSC4 {
			if n, err := strconv.Atoi(parts[0]); err == nil && n >= 0 && n < 256 {
				v := t.Palette[n]
				t.reply(fmt.Sprintf("\x1b]4;%d;rgb:%02x%02x/%02x%02x/%02x%02x\x1b\\", n, v>>16&255, v>>16&255, v>>8&255, v>>8&255, v&255, v&255))
			}
		}
	case "10":
		if rest == "?" && t.Caps.OSC10 {
			v := t.FgColor
			t.reply(fmt.Sprintf("\x1b]10;rgb:%02x%02x/%02x%02x/%02x%02x\x1b\\", v>>16&255, v>>16&255, v>>8&255, v>>8&255, v&255, v&255))
		}
	case "11":
		if rest == "?" && t.Caps.OSC11 {
			v := t.BgColor
			t.reply(fmt.Sprintf("\x1b]11;rgb:%02x%02x/%02x%02x/%02x%02x\x1b\\", v>>16&255, v>>16&255, v>>8&255, v>>8&255, v&255, v&255))
		}
	case "8":
		i := strings.IndexByte(rest, ';')
		if i < 0 {
			t.Unknown = append(t.Unknown, itemString(it))
			return
		}
		t.Pen.LinkParams, t.Pen.LinkURI = rest[:i], rest[i+1:]
		if t.Pen.LinkURI == "" {
			t.Pen.LinkParams = ""
		}
	case "9":
		t.Notifications = append(t.Notifications, rest)
	case "777":
		t.Notifications = append(t.Notifications, rest)
	case "22":
		t.PointerShape = rest
	case "52":
		parts := strings.SplitN(rest, ";", 2)
		if len(parts) == 2 {
			if parts[1] == "?" {
				if t.Caps.OSC52 {
					t.reply("\x1b]52;" + parts[0] + ";" + base64.StdEncoding.EncodeToString([]byte(t.Clipboard)) + "\x1b\\")
				}
			} else if b, err := base64.StdEncoding.DecodeString(parts[1]); err == nil {
				t.Clipboard = string(b)
			}
		}
	case "66":
		t.use("explicit-width", itemString(it))
		if !t.Caps.ExplicitWidth {
			return // an unknown OSC is ignored
		}
		i := strings.IndexByte(rest, ';')
		if i < 0 {
			return
		}
		w := 0
		for _, kv := range strings.Split(rest[:i], ":") {
			if strings.HasPrefix(kv, "w=") {
				w, _ = strconv.Atoi(kv[2:])
			}
		}
		text := rest[i+1:]
		if w <= 0 {
			for _, r := range text {
				t.printRune(r)
			}
			return
		}
		t.place(text, w)
		t.lastPrintValid = false
	case "176":
		if rest == "?" {
			if t.Caps.AppID {
				t.reply("\x1b]176;" + t.AppIDValue + "\x1b\\")
			}
			return
		}
		t.use("app-id", itemString(it))
		if t.Caps.AppID {
			t.AppIDValue = rest
		}
	default:
		t.Unknown = append(t.Unknown, itemString(it))
	}
}

func hexDecode(s string) string {
	var b []byte
	for i := 0; i+1 < len(s); i += 2 {
		v, err := strconv.ParseUint(s[i:i+2], 16, 8)
		if err != nil {
			return ""
		}
		b = append(b, byte(v))
	}
	return string(b)
}

func (t *Term) dcs(it Item) {
	data := string(it.Data)
	switch {
	case string(it.Inter) == "+" && it.Final == 'q':
		// XTGETTCAP
		name := hexDecode(data)
		switch {
		case name == "RGB" && t.Caps.RGB:
			t.reply("\x1bP1+r" + strings.ToUpper(fmt.Sprintf("%x", "RGB")) + "=" + strings.ToUpper(fmt.Sprintf("%x", "8/8/8")) + "\x1b\\")
		case name == "Smulx" && t.Caps.Smulx:
			t.reply("\x1bP1+r" + strings.ToUpper(fmt.Sprintf("%x", "Smulx")) + "=" + strings.ToUpper(fmt.Sprintf("%x", "\x1b[4:%p1%dm")) + "\x1b\\")
		default:
			// a capability the terminal does not have: no answer, the bare
			// negative answer, or the negative answer echoing the name
			// (kitty, foot)
			switch t.Caps.NegTcap {
			case 1:
				t.reply("\x1bP0+r\x1b\\")
			case 2:
				t.reply("\x1bP0+r" + data + "\x1b\\")
			default:
				if t.Caps.RGB || t.Caps.Smulx {
					t.reply("\x1bP0+r\x1b\\")
				}
			}
		}
	case string(it.Inter) == "$" && it.Final == 'q':
		// DECRQSS
		if data == " q" && t.Caps.CursorStyleRep {
			t.reply(fmt.Sprintf("\x1bP1$r%d q\x1b\\", t.CursorStyle))
		} else if t.Caps.CursorStyleRep {
			t.reply("\x1bP0$r\x1b\\")
		}
	case it.Final == 'q' && len(it.Inter) == 0:
		// sixel image
		t.use("sixel", "DCS q (sixel image)")
		t.Graphics = append(t.Graphics, GraphicsEvent{Kind: "sixel", Row: t.R, Col: t.C, Raw: fmt.Sprintf("%d bytes", len(data))})
	default:
		t.Unknown = append(t.Unknown, itemString(it))
	}
}

func (t *Term) apc(it Item) {
	data := string(it.Data)
	if !strings.HasPrefix(data, "G") {
		t.Unknown = append(t.Unknown, itemString(it))
		return
	}
	ctrl := data[1:]
	if i := strings.IndexByte(ctrl, ';'); i >= 0 {
		ctrl = ctrl[:i]
	}
	kv := map[string]string{}
	for _, p := range strings.Split(ctrl, ",") {
		if i := strings.IndexByte(p, '='); i > 0 {
			kv[p[:i]] = p[i+1:]
		}
	}
	id, _ := strconv.Atoi(kv["i"])
	switch kv["a"] {
	case "q":
		if t.Caps.KittyGraphics {
			t.reply(fmt.Sprintf("\x1b_Gi=%d;OK\x1b\\", id))
		}
		return
	case "d":
		t.use("kitty-graphics", "APC G a=d")
		t.Graphics = append(t.Graphics, GraphicsEvent{Kind: "kitty-delete", ID: id, Raw: ctrl})
	case "p":
		t.use("kitty-graphics", "APC G a=p")
		t.Graphics = append(t.Graphics, GraphicsEvent{Kind: "kitty-place", ID: id, Row: t.R, Col: t.C, Raw: ctrl})
	case "T":
		t.use("kitty-graphics", "APC G a=T")
		t.Graphics = append(t.Graphics, GraphicsEvent{Kind: "kitty-transmit", ID: id, Raw: ctrl})
		t.Graphics = append(t.Graphics, GraphicsEvent{Kind: "kitty-place", ID: id, Row: t.R, Col: t.C, Raw: ctrl})
	default:
		// a=t or chunk continuation
		t.use("kitty-graphics", "APC G transmit")
		if kv["m"] != "" || kv["f"] != "" || kv["a"] == "t" {
			if _, cont := kv["f"]; cont || kv["a"] == "t" {
				t.Graphics = append(t.Graphics, GraphicsEvent{Kind: "kitty-transmit", ID: id, Raw: ctrl})
			}
		}
	}
}

// Resize changes the terminal's size (what a user dragging the window does).
// It returns what the terminal sends on its own as a consequence.
func (t *Term) Resize(rows, cols int) []byte {
	t.primary.resize(rows, cols)
	t.alt.resize(rows, cols)
	t.Rows, t.Cols = rows, cols
	t.top, t.bot = 0, rows-1
	t.clampCursor()
	t.pendingWrap = false
	t.lastPrintValid = false
	if t.Caps.InBandResize && t.Modes[2048] {
		return []byte(t.InBandReport())
	}
	return nil
}

// ModeTable is the part of the terminal state an application must leave as it
// found it.
type ModeTable struct {
	Modes         string
	KeypadApp     bool
	KittyStack    string
	KittyFlags    int
	CursorVisible bool
	CursorStyle   int
	PointerShape  string
	AppID         string
	OnAlt         bool
	Pen           Style
	InsertMode    bool
	ScrollRegion  [2]int
	SyncDepth     int
}

func (t *Term) ModeTable() ModeTable {
	var keys []int
	for k, v := range t.Modes {
		if v {
			keys = append(keys, k)
		}
	}
	sort.Ints(keys)
	return ModeTable{
		Modes: fmt.Sprint(keys), KeypadApp: t.KeypadApp, KittyStack: fmt.Sprint(t.KittyStack), KittyFlags: t.KittyFlags,
		CursorVisible: t.CursorVisible, CursorStyle: t.CursorStyle, PointerShape: t.PointerShape, AppID: t.AppIDValue,
		OnAlt: t.onAlt, Pen: t.Pen, InsertMode: t.InsertMode, ScrollRegion: [2]int{t.top, t.bot}, SyncDepth: t.SyncDepth,
	}
}

// Scramble overwrites the display state with arbitrary content ("whatever the
// terminal displayed before").
func (t *Term) Scramble(draw func(n int) int) {
	s := t.scr()
	glyphs := []string{"#", "x", "?", "é", "Z"}
	for r := 0; r < t.Rows; r++ {
		for c := 0; c < t.Cols; c++ {
			if draw(3) == 0 {
				continue
			}
			s.Cells[r][c] = Cell{G: glyphs[draw(len(glyphs))], W: 1, Style: Style{
				Fg: Color{Kind: ColIndex, V: uint32(draw(16))}, Bg: Color{Kind: ColIndex, V: uint32(draw(16))}, Attr: uint8(draw(128))}}
		}
	}
	t.R, t.C = draw(t.Rows), draw(t.Cols)
	t.pendingWrap = false
	t.lastPrintValid = false
}

// PendingWrap reports the deferred-wrap state (a glyph was printed in the last
// column and the cursor has not moved since).
func (t *Term) PendingWrap() bool { return t.pendingWrap }

// ScrollRegion returns the scroll region (0-based, inclusive).
func (t *Term) ScrollRegion() (int, int) { return t.top, t.bot }
