package simterm

// sgr applies a Select Graphic Rendition sequence to the pen. Both the ITU
// T.416 colon form (38:2::r:g:b, 38:2:r:g:b, 38:5:n, 4:n, 58:…) and the legacy
// semicolon form (38;2;r;g;b, 38;5;n) are understood.
func (t *Term) sgr(it Item) {
	ps := it.Params
	if len(ps) == 0 {
		ps = [][]int{{0}}
	}
	seq := itemString(it)
	for i := 0; i < len(ps); i++ {
		p := ps[i]
		if len(p) == 0 {
			p = []int{0}
		}
		n := p[0]
		switch {
		case n == 0 && len(p) == 1:
			link, lp := t.Pen.LinkURI, t.Pen.LinkParams
			t.Pen = Style{LinkURI: link, LinkParams: lp}
		case n == 1:
			t.Pen.Attr |= ABold
		case n == 2:
			t.Pen.Attr |= ADim
		case n == 3:
			t.Pen.Attr |= AItalic
		case n == 4:
			if len(p) > 1 {
				t.use("styled-underline", seq)
				if t.Caps.StyledUnderline() {
					if p[1] <= 5 {
						t.Pen.UlStyle = uint8(p[1])
					}
				} else {
					// a terminal without the extension sees "4" with junk:
					// what it does is not defined; record and show single
					t.Pen.UlStyle = 1
					if p[1] == 0 {
						t.Pen.UlStyle = 0
					}
				}
			} else {
				t.Pen.UlStyle = 1
			}
		case n == 5, n == 6:
			t.Pen.Attr |= ABlink
		case n == 7:
			t.Pen.Attr |= AReverse
		case n == 8:
			t.Pen.Attr |= AInvisible
		case n == 9:
			t.Pen.Attr |= AStrike
		case n == 21:
			t.Pen.UlStyle = 2
		case n == 22:
			t.Pen.Attr &^= ABold | ADim
		case n == 23:
			t.Pen.Attr &^= AItalic
		case n == 24:
			t.Pen.UlStyle = 0
		case n == 25:
			t.Pen.Attr &^= ABlink
		case n == 27:
			t.Pen.Attr &^= AReverse
		case n == 28:
			t.Pen.Attr &^= AInvisible
		case n == 29:
			t.Pen.Attr &^= AStrike
		case n >= 30 && n <= 37:
			t.Pen.Fg = Color{ColIndex, uint32(n - 30)}
		case n == 39:
			t.Pen.Fg = Color{}
		case n >= 40 && n <= 47:
			t.Pen.Bg = Color{ColIndex, uint32(n - 40)}
		case n == 49:
			t.Pen.Bg = Color{}
		case n >= 90 && n <= 97:
			t.Pen.Fg = Color{ColIndex, uint32(n - 90 + 8)}
		case n >= 100 && n <= 107:
			t.Pen.Bg = Color{ColIndex, uint32(n - 100 + 8)}
		case n == 59:
			t.use("styled-underline", seq)
			t.Pen.Ul = Color{}
		case n == 38 || n == 48 || n == 58:
			var col Color
			ok := false
			if len(p) > 1 {
				// colon form
				switch p[1] {
				case 5:
					if len(p) >= 3 {
						col, ok = Color{ColIndex, uint32(p[2] & 255)}, true
					}
				case 2:
					switch {
					case len(p) >= 6:
						col, ok = Color{ColRGB, uint32(p[3]&255)<<16 | uint32(p[4]&255)<<8 | uint32(p[5]&255)}, true
					case len(p) == 5:
						col, ok = Color{ColRGB, uint32(p[2]&255)<<16 | uint32(p[3]&255)<<8 | uint32(p[4]&255)}, true
					}
				}
			} else if i+1 < len(ps) && len(ps[i+1]) == 1 {
				// legacy semicolon form
				switch ps[i+1][0] {
				case 5:
					if i+2 < len(ps) {
						col, ok = Color{ColIndex, uint32(ps[i+2][0] & 255)}, true
						i += 2
					}
				case 2:
					if i+4 < len(ps) {
						col, ok = Color{ColRGB, uint32(ps[i+2][0]&255)<<16 | uint32(ps[i+3][0]&255)<<8 | uint32(ps[i+4][0]&255)}, true
						i += 4
					}
				}
			}
			if !ok {
				t.Unknown = append(t.Unknown, seq)
				continue
			}
			if col.Kind == ColRGB {
				t.use("rgb", seq)
			}
			switch n {
			case 38:
				t.Pen.Fg = col
			case 48:
				t.Pen.Bg = col
			case 58:
				t.use("styled-underline", seq)
				if t.Caps.StyledUnderline() {
					t.Pen.Ul = col
				}
			}
		default:
			t.Unknown = append(t.Unknown, seq)
		}
	}
}
