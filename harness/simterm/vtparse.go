// Package simterm is an independent reference terminal written for /verif from
// the specifications (vt100.net "A parser for DEC's ANSI-compatible video
// terminals" by Paul Flo Williams, ECMA-48, the xterm control-sequence
// document, and the kitty protocol notes). It shares no code with the
// repository under test.
package simterm

import (
	"unicode/utf8"
)

// Kind of a parsed item.
type Kind int

const (
	KText Kind = iota // one decoded scalar (or one raw invalid byte)
	KC0
	KESC
	KCSI
	KOSC
	KDCS
	KAPC
	KSS3
	// KTaint is not a sequence: it marks the point where the input left the
	// domain the state machine defines (a non-ASCII scalar or raw byte inside
	// a sequence header). Nothing is prescribed from there until the next
	// CAN or SUB, which resynchronises every conforming parser.
	KTaint
)

func (k Kind) String() string {
	return [...]string{"Text", "C0", "ESC", "CSI", "OSC", "DCS", "APC", "SS3", "Taint"}[k]
}

// Item is one unit delivered by the reference automaton.
type Item struct {
	Kind   Kind
	Rune   rune    // KText: the scalar (raw invalid byte b is delivered as rune(b) with Raw set); KC0/KSS3: the byte
	Raw    bool    // KText: came from a byte that is not valid UTF-8
	Inter  []byte  // private marker and intermediates, in arrival order
	Params [][]int // KCSI: parameters with sub-parameters; KDCS: one value each
	Final  byte
	Data   []rune // OSC/DCS/APC payload
	Off    int    // stream offset of the first byte of the item
	End    int    // stream offset one past its last byte
	// Optional marks an item whose delivery the state machine leaves open: a
	// control string ended by CAN, SUB or a bare ESC rather than by ST or BEL.
	Optional bool
	// Known names a listed known finding: the item is only matched when the
	// implementation shows exactly that listed deviation.
	Known string
	// Unspec marks text that arrived inside a control-sequence header, where
	// the VT500 table has no entry: it may be printed or dropped.
	Unspec bool
}

type vtState int

const (
	sGround vtState = iota
	sEscape
	sEscInter
	sCSIEntry
	sCSIParam
	sCSIInter
	sCSIIgnore
	sDCSEntry
	sDCSParam
	sDCSInter
	sDCSPass
	sDCSIgnore
	sOSC
	sSosPm
	sAPC
	sSS3
	sTainted
)

// Parser is the reference automaton. Feed may be called with arbitrary
// fragments; the result does not depend on fragmentation.
type Parser struct {
	st           vtState
	inter        []byte
	params       []byte
	data         []rune
	final        byte
	start        int  // offset where the current sequence/string began
	stFromString bool // the pending ESC ended a control string: a following '\' is the ST
	off          int
	pend         []byte // undecoded tail (incomplete UTF-8)
	out          []Item
	dcsInter     []byte
	dcsParams    []byte
	dcsFinal     byte
	// Sink, when set, receives items as they complete instead of Feed
	// returning them.
	Sink      func(Item)
	capture   bool
	lastESC   bool // the most recent byte was ESC
	strBytes  int  // bytes consumed by the current control-string state
	heldEmpty bool // the held string consumed no byte in its string state
	// KnownEmptyStringST enables the listed known finding "the ST of an
	// empty control string is delivered as ESC \\".
	KnownEmptyStringST bool
	held               *Item // control string ended by ESC, waiting to learn whether it was ST
	stMaybe            bool  // ESC-from-string followed by a C0: whether a later '\' still counts as ST is open
}

func NewParser() *Parser { return &Parser{} }

// State reports whether the automaton is waiting in the escape state right
// after an ESC byte (the situation in which silence means "Escape key").
func (p *Parser) InEscape() bool { return p.st == sEscape && p.lastESC && len(p.pend) == 0 }

func (p *Parser) InGround() bool { return p.st == sGround && len(p.pend) == 0 }

// Feed consumes bytes and returns the items completed by them.
func (p *Parser) Feed(b []byte) []Item {
	p.out = p.out[:0]
	buf := b
	if len(p.pend) > 0 {
		buf = append(append([]byte(nil), p.pend...), b...)
		p.pend = nil
	}
	for len(buf) > 0 {
		c := buf[0]
		if c < utf8.RuneSelf {
			p.step(rune(c), false, 1)
			buf = buf[1:]
			continue
		}
		if !utf8.FullRune(buf) {
			p.pend = append([]byte(nil), buf...)
			break
		}
		r, n := utf8.DecodeRune(buf)
		if r == utf8.RuneError && n == 1 {
			p.step(rune(c), true, 1)
		} else {
			p.step(r, false, n)
		}
		buf = buf[n:]
	}
	if p.Sink != nil {
		for _, it := range p.out {
			p.Sink(it)
		}
		p.out = p.out[:0]
		return nil
	}
	return append([]Item(nil), p.out...)
}

// Flush is called at end of input: an incomplete UTF-8 tail is delivered as
// raw bytes.
func (p *Parser) Flush() []Item {
	p.out = p.out[:0]
	pend := p.pend
	p.pend = nil
	for _, c := range pend {
		p.step(rune(c), true, 1)
	}
	p.resolvePendingST(false)
	return append([]Item(nil), p.out...)
}

// Timeout models "ESC followed by silence": in the escape state it yields the
// Escape key and returns to ground; in every other state it does nothing.
func (p *Parser) Timeout() []Item {
	if p.st != sEscape || !p.lastESC {
		return nil
	}
	p.lastESC = false
	p.out = p.out[:0]
	p.resolvePendingST(false)
	p.st = sGround
	p.stFromString, p.stMaybe = false, false
	p.out = append(p.out, Item{Kind: KC0, Rune: 0x1b, Off: p.off - 1, End: p.off})
	return append([]Item(nil), p.out...)
}

func (p *Parser) emit(it Item) {
	it.End = p.off
	if p.Sink != nil && !p.capture {
		for _, o := range p.out {
			p.Sink(o)
		}
		p.out = p.out[:0]
		p.Sink(it)
		return
	}
	p.out = append(p.out, it)
}

func (p *Parser) clear() {
	p.inter = nil
	p.params = nil
	p.final = 0
}

func isC0exec(r rune) bool {
	return (r >= 0 && r <= 0x17) || r == 0x19 || (r >= 0x1c && r <= 0x1f)
}

// endString runs the exit action of a control-string state.
func (p *Parser) endString(optional bool) {
	switch p.st {
	case sOSC:
		p.emit(Item{Kind: KOSC, Data: p.data, Off: p.start, Optional: optional})
	case sDCSPass:
		it := Item{Kind: KDCS, Inter: p.dcsInter, Final: p.dcsFinal, Data: p.data, Off: p.start, Optional: optional}
		it.Params = parseParams(p.dcsParams, false)
		p.emit(it)
	case sAPC:
		p.emit(Item{Kind: KAPC, Data: p.data, Off: p.start, Optional: optional})
	}
	p.data = nil
}

func inString(s vtState) bool {
	return s == sOSC || s == sDCSPass || s == sDCSIgnore || s == sSosPm || s == sAPC
}

func (p *Parser) step(r rune, raw bool, n int) {
	at := p.off
	p.off += n
	wasESC := p.lastESC
	p.lastESC = r == 0x1b && !raw
	_ = wasESC
	// "anywhere" transitions
	switch r {
	case 0x18, 0x1a:
		if !raw {
			p.resolvePendingST(false)
			p.endString(true)
			p.st = sGround
			p.stFromString, p.stMaybe = false, false
			p.emit(Item{Kind: KC0, Rune: r, Off: at})
			return
		}
	case 0x1b:
		if !raw && p.st != sTainted {
			// ESC ESC \ after a string: whether that '\' still counts as the
			// string's terminator is not defined; leave it open
			prevMaybe := p.st == sEscape && (p.stFromString || p.stMaybe)
			p.resolvePendingST(false)
			p.stMaybe = prevMaybe
			p.stFromString = inString(p.st)
			p.heldEmpty = p.stFromString && p.strBytes == 0
			if p.stFromString {
				// ESC ends the string; whether that was a proper ST is
				// known only when the next byte arrives.
				p.endStringPendingST()
			}
			p.st = sEscape
			p.clear()
			p.start = at
			return
		}
	}
	ascii := !raw && r < 0x80
	if inString(p.st) {
		p.strBytes++
	}
	switch p.st {
	case sGround:
		if ascii && isC0exec(r) {
			p.emit(Item{Kind: KC0, Rune: r, Off: at})
			return
		}
		p.emit(Item{Kind: KText, Rune: r, Raw: raw, Off: at})
	case sEscape:
		fromString := p.stFromString
		maybe := p.stMaybe
		p.stFromString, p.stMaybe = false, false
		switch {
		case !ascii:
			p.resolvePendingST(false)
			p.taint(at)
		case isC0exec(r):
			p.resolvePendingST(false)
			p.stMaybe = fromString || maybe
			p.emit(Item{Kind: KC0, Rune: r, Off: at})
		case r >= 0x20 && r <= 0x2f:
			p.resolvePendingST(false)
			p.inter = append(p.inter, byte(r))
			p.st = sEscInter
		case r == 0x5c:
			if fromString {
				// ESC \ is the String Terminator of the string just ended
				p.resolvePendingST(true)
				p.st = sGround
				if p.heldEmpty && p.KnownEmptyStringST {
					p.emit(Item{Kind: KESC, Final: 0x5c, Off: p.start, Optional: true, Known: "empty-string-st"})
				}
				return
			}
			p.st = sGround
			p.emit(Item{Kind: KESC, Final: byte(r), Off: p.start, Optional: maybe})
		case r == 0x5b:
			p.resolvePendingST(false)
			p.clear()
			p.st = sCSIEntry
		case r == 0x5d:
			p.resolvePendingST(false)
			p.data = nil
			p.strBytes = 0
			p.st = sOSC
		case r == 0x50:
			p.resolvePendingST(false)
			p.clear()
			p.st = sDCSEntry
		case r == 0x58 || r == 0x5e:
			p.resolvePendingST(false)
			p.strBytes = 0
			p.st = sSosPm
		case r == 0x5f:
			p.resolvePendingST(false)
			p.data = nil
			p.strBytes = 0
			p.st = sAPC
		case r == 0x4f:
			p.resolvePendingST(false)
			p.st = sSS3
		default:
			// 30-4E, 51-57, 59, 5A, 60-7E dispatch; 7F too (Alt+Backspace)
			p.resolvePendingST(false)
			p.st = sGround
			p.emit(Item{Kind: KESC, Final: byte(r), Off: p.start})
		}
	case sEscInter:
		switch {
		case !ascii:
			p.taint(at)
		case isC0exec(r):
			p.emit(Item{Kind: KC0, Rune: r, Off: at})
		case r >= 0x20 && r <= 0x2f:
			p.inter = append(p.inter, byte(r))
		case r == 0x7f:
		default:
			p.st = sGround
			p.emit(Item{Kind: KESC, Inter: p.inter, Final: byte(r), Off: p.start})
		}
	case sSS3:
		switch {
		case !ascii:
			p.taint(at)
		case isC0exec(r):
			p.emit(Item{Kind: KC0, Rune: r, Off: at})
		case r == 0x7f:
		default:
			p.st = sGround
			p.emit(Item{Kind: KSS3, Rune: r, Off: p.start})
		}
	case sCSIEntry, sCSIParam, sCSIInter, sCSIIgnore:
		p.stepCSI(r, raw, ascii, at)
	case sDCSEntry, sDCSParam, sDCSInter:
		p.stepDCSHeader(r, raw, ascii, at)
	case sDCSPass:
		switch {
		case ascii && r == 0x7f:
		default:
			p.data = append(p.data, r)
		}
	case sDCSIgnore, sSosPm, sTainted:
	case sAPC:
		if ascii && isC0exec(r) {
			return
		}
		p.data = append(p.data, r)
	case sOSC:
		switch {
		case ascii && r == 0x07:
			p.endString(false)
			p.st = sGround
		case ascii && isC0exec(r):
		default:
			p.data = append(p.data, r)
		}
	}
}

// taint: the input left the defined domain; swallow everything up to the next
// CAN/SUB (handled by the anywhere rule, which also leaves this state).
func (p *Parser) taint(at int) {
	p.emit(Item{Kind: KTaint, Off: at})
	p.st = sTainted
}

// A control string ended by ESC: hold the item until the next byte tells
// whether the ESC began a String Terminator.

func (p *Parser) endStringPendingST() {
	// the item is produced now (so offsets are right) and parked
	n := len(p.out)
	p.capture = true
	p.endString(false)
	p.capture = false
	if len(p.out) > n {
		it := p.out[n]
		p.out = p.out[:n]
		p.held = &it
	}
}

func (p *Parser) resolvePendingST(properST bool) {
	if p.held == nil {
		return
	}
	it := *p.held
	p.held = nil
	if !properST {
		it.Optional = true
	}
	// deliver before whatever the current byte produces
	p.out = append(p.out, it)
}

func (p *Parser) stepCSI(r rune, raw, ascii bool, at int) {
	if !ascii {
		p.taint(at)
		return
	}
	if isC0exec(r) {
		p.emit(Item{Kind: KC0, Rune: r, Off: at})
		return
	}
	if r == 0x7f {
		return
	}
	if r >= 0x40 && r <= 0x7e {
		if p.st != sCSIIgnore {
			p.emit(Item{Kind: KCSI, Inter: p.inter, Params: parseParams(p.params, true), Final: byte(r), Off: p.start})
		}
		p.st = sGround
		return
	}
	switch p.st {
	case sCSIEntry:
		switch {
		case (r >= 0x30 && r <= 0x39) || r == 0x3b || r == 0x3a:
			p.params = append(p.params, byte(r))
			p.st = sCSIParam
		case r >= 0x3c && r <= 0x3f:
			p.inter = append(p.inter, byte(r))
			p.st = sCSIParam
		case r >= 0x20 && r <= 0x2f:
			p.inter = append(p.inter, byte(r))
			p.st = sCSIInter
		}
	case sCSIParam:
		switch {
		case (r >= 0x30 && r <= 0x39) || r == 0x3b || r == 0x3a:
			p.params = append(p.params, byte(r))
		case r >= 0x3c && r <= 0x3f:
			p.st = sCSIIgnore
		case r >= 0x20 && r <= 0x2f:
			p.inter = append(p.inter, byte(r))
			p.st = sCSIInter
		}
	case sCSIInter:
		switch {
		case r >= 0x20 && r <= 0x2f:
			p.inter = append(p.inter, byte(r))
		case r >= 0x30 && r <= 0x3f:
			p.st = sCSIIgnore
		}
	case sCSIIgnore:
	}
}

func (p *Parser) stepDCSHeader(r rune, raw, ascii bool, at int) {
	if !ascii {
		p.taint(at)
		return
	}
	if isC0exec(r) || r == 0x7f {
		return
	}
	if r >= 0x40 && r <= 0x7e {
		p.dcsInter = p.inter
		p.dcsParams = p.params
		p.dcsFinal = byte(r)
		p.data = nil
		p.strBytes = 0
		p.st = sDCSPass
		return
	}
	switch p.st {
	case sDCSEntry:
		switch {
		case r >= 0x20 && r <= 0x2f:
			p.inter = append(p.inter, byte(r))
			p.st = sDCSInter
		case r == 0x3a:
			p.strBytes, p.st = 0, sDCSIgnore
		case (r >= 0x30 && r <= 0x39) || r == 0x3b:
			p.params = append(p.params, byte(r))
			p.st = sDCSParam
		case r >= 0x3c && r <= 0x3f:
			p.inter = append(p.inter, byte(r))
			p.st = sDCSParam
		}
	case sDCSParam:
		switch {
		case (r >= 0x30 && r <= 0x39) || r == 0x3b:
			p.params = append(p.params, byte(r))
		case r == 0x3a || (r >= 0x3c && r <= 0x3f):
			p.strBytes, p.st = 0, sDCSIgnore
		case r >= 0x20 && r <= 0x2f:
			p.inter = append(p.inter, byte(r))
			p.st = sDCSInter
		}
	case sDCSInter:
		switch {
		case r >= 0x20 && r <= 0x2f:
			p.inter = append(p.inter, byte(r))
		case r >= 0x30 && r <= 0x3f:
			p.strBytes, p.st = 0, sDCSIgnore
		}
	}
}

// parseParams decodes a parameter string. ';' separates parameters, ':'
// sub-parameters (only when sub is true); an empty value is 0.
func parseParams(b []byte, sub bool) [][]int {
	if len(b) == 0 {
		return nil
	}
	var out [][]int
	cur := []int{}
	v := 0
	for _, c := range b {
		switch {
		case c == ';':
			cur = append(cur, v)
			out = append(out, cur)
			cur = []int{}
			v = 0
		case c == ':' && sub:
			cur = append(cur, v)
			v = 0
		default:
			v = v*10 + int(c-'0')
		}
	}
	cur = append(cur, v)
	out = append(out, cur)
	return out
}

// Clone returns an independent copy of the automaton.
func (p *Parser) Clone() *Parser {
	q := *p
	q.inter = append([]byte(nil), p.inter...)
	q.params = append([]byte(nil), p.params...)
	q.data = append([]rune(nil), p.data...)
	q.pend = append([]byte(nil), p.pend...)
	q.dcsInter = append([]byte(nil), p.dcsInter...)
	q.dcsParams = append([]byte(nil), p.dcsParams...)
	q.out = nil
	if p.held != nil {
		h := *p.held
		q.held = &h
	}
	return &q
}
