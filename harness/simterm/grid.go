package simterm

import (
	"strings"

	"github.com/mattn/go-runewidth"
	"github.com/rivo/uniseg"
)

// ColorKind distinguishes default, palette and direct colours.
type ColorKind uint8

const (
	ColDefault ColorKind = iota
	ColIndex
	ColRGB
)

type Color struct {
	Kind ColorKind
	V    uint32 // index 0..255 or 0xRRGGBB
}

// Attribute bits of the reference terminal (its own numbering).
const (
	ABold = 1 << iota
	ADim
	AItalic
	ABlink
	AReverse
	AInvisible
	AStrike
)

type Style struct {
	Fg, Bg, Ul Color
	UlStyle    uint8 // 0 off, 1 single, 2 double, 3 curly, 4 dotted, 5 dashed
	Attr       uint8
	LinkURI    string
	LinkParams string
}

// Cell is one character position of the display.
type Cell struct {
	G     string // grapheme shown; "" is blank
	W     int    // 1 or 2 for a cell that starts a glyph; 0 for the right half of a wide glyph
	Style Style
	// Unspec: the standards do not say what this cell shows (for example the
	// surviving half of a half-overwritten wide glyph).
	Unspec bool
}

func (c Cell) Blank() bool { return c.G == "" || c.G == " " }

// Personality is how the terminal measures text.
type Personality int

const (
	PWcwidth Personality = iota // one cell run per scalar, wcwidth per scalar
	PUnicode                    // grapheme clusters, UAX#11/emoji presentation width per cluster
	PNoZWJ                      // clusters, but a ZWJ does not join
)

// Piece is a unit the terminal places in one go: text plus the columns it takes.
type Piece struct {
	Text string
	W    int
}

func runeW(r rune) int {
	if r >= 0xFE00 && r <= 0xFE0F {
		return 0
	}
	if r >= 0xE0100 && r <= 0xE01EF {
		return 0
	}
	return runewidth.RuneWidth(r)
}

// Layout splits text into the pieces a terminal of the given personality
// places, each with its width (0 = combines with the previous piece).
func Layout(p Personality, s string) []Piece {
	var out []Piece
	switch p {
	case PWcwidth:
		for _, r := range s {
			out = append(out, Piece{Text: string(r), W: runeW(r)})
		}
	case PUnicode:
		g := uniseg.NewGraphemes(s)
		for g.Next() {
			w := g.Width()
			if w > 2 {
				w = 2
			}
			out = append(out, Piece{Text: g.Str(), W: w})
		}
	case PNoZWJ:
		parts := strings.SplitAfter(s, "‍")
		for _, part := range parts {
			body := strings.TrimSuffix(part, "‍")
			g := uniseg.NewGraphemes(body)
			for g.Next() {
				w := g.Width()
				if w > 2 {
					w = 2
				}
				out = append(out, Piece{Text: g.Str(), W: w})
			}
			if len(body) != len(part) {
				out = append(out, Piece{Text: "‍", W: 0})
			}
		}
	}
	return out
}

// Measure is the number of columns the terminal advances for s.
func Measure(p Personality, s string) int {
	n := 0
	for _, pc := range Layout(p, s) {
		n += pc.W
	}
	return n
}

// Screen is one of the two display buffers.
type Screen struct {
	Rows, Cols int
	Cells      [][]Cell
}

func newScreen(rows, cols int) *Screen {
	s := &Screen{Rows: rows, Cols: cols}
	s.Cells = make([][]Cell, rows)
	for r := range s.Cells {
		s.Cells[r] = blankRow(cols, Style{})
	}
	return s
}

func blankRow(cols int, st Style) []Cell {
	row := make([]Cell, cols)
	for i := range row {
		row[i] = Cell{W: 1, Style: Style{Bg: st.Bg}}
	}
	return row
}

func (s *Screen) resize(rows, cols int) {
	n := newScreen(rows, cols)
	for r := 0; r < rows && r < s.Rows; r++ {
		for c := 0; c < cols && c < s.Cols; c++ {
			n.Cells[r][c] = s.Cells[r][c]
		}
		// a wide glyph cut in half by the new right edge
		if cols < s.Cols && cols > 0 && n.Cells[r][cols-1].W == 2 {
			n.Cells[r][cols-1] = Cell{W: 1, Unspec: true}
		}
	}
	*s = *n
}

// breakWide is called before cell (r,c) is overwritten or erased: if it is half
// of a wide glyph, what the other half shows afterwards is terminal-specific.
func (s *Screen) breakWide(r, c int) {
	cell := s.Cells[r][c]
	if cell.W == 0 && c > 0 {
		// right half: find the start
		if s.Cells[r][c-1].W == 2 {
			st := s.Cells[r][c-1].Style
			s.Cells[r][c-1] = Cell{W: 1, Unspec: true, Style: st}
		}
	}
	if cell.W == 2 && c+1 < s.Cols {
		st := s.Cells[r][c+1].Style
		s.Cells[r][c+1] = Cell{W: 1, Unspec: true, Style: st}
	}
}

func (s *Screen) erase(r, c0, c1 int, st Style) {
	if r < 0 || r >= s.Rows {
		return
	}
	if c0 < 0 {
		c0 = 0
	}
	if c1 > s.Cols {
		c1 = s.Cols
	}
	if c0 >= c1 {
		return
	}
	// halves left outside the erased range
	if s.Cells[r][c0].W == 0 {
		s.breakWide(r, c0)
	}
	if s.Cells[r][c1-1].W == 2 {
		s.breakWide(r, c1-1)
	}
	for c := c0; c < c1; c++ {
		s.Cells[r][c] = Cell{W: 1, Style: Style{Bg: st.Bg}}
	}
}
