module simharness

go 1.26.8

require (
	git.sr.ht/~rockorager/vaxis v0.0.0
	github.com/anishathalye/porcupine v1.3.0
)

replace git.sr.ht/~rockorager/vaxis => ../repo
