# table of claimed / not-applicable properties, read by mkmanifest.py
claimed = {
 "C02": dict(cat="exploration", ref="§6 C02", tech="deterministic simulation: seeded read-chunk schedules over the real parser goroutine, compared item by item with an independent VT500 reference automaton; exhaustive class-string walks + seeded random/grammar streams",
   text="Seeded simulation of the real ansi.Parser fed through a simulated reader (every read chunking, pool reuse decided by the tape) against an independent transcription of the VT500 automaton. Class-representative strings are walked exhaustively to length 3 (quick) / 4 (thorough); longer streams are sampled. Sampling, not proof: the right level for an unbounded input space whose failures are sparse state-leak and read-boundary effects.",
   note="Trusted: simterm's automaton (written from vt100.net, leaves undefined situations open), uniseg for clusters/width, simgen's semantics preservation (repo suite re-run on the instrumented copy each time)."),
 "C08": dict(cat="exploration", ref="§6 C08", tech="deterministic simulation with fault injection: discrete-event clock, baton scheduler over parser/timer/consumer/reader tasks, EOF/error/Close at tape-chosen (thorough: every) offsets, history oracles + reference automaton with TIMEOUT input",
   text="Whole-lifecycle simulation of the parser: the Escape timer callback is a schedulable task on a fake clock, so timer-vs-byte, timer-vs-EOF and timer-vs-Close coincidences are hit and replayed; consumers stall, retain or stop; input ends by EOF, error, (n>0,err) or Close at sampled and (thorough) every byte offset. Bounded liveness (clean stop within 120 simulated s) and history oracles (single trailing EOF, immutability of delivered items, Escape exactly-once) decide the property on each run.",
   note="Escape delay calibrated on the code under test; gaps the parser cannot observe are accepted either way; partial strings at EOF unconstrained."),
 "C01": dict(cat="exploration", ref="§6 C01", tech="deterministic simulation: whole real Vaxis sessions (start-up handshake, input goroutine, renderer) under a seeded scheduler against a reference terminal; seeded frame histories, capability subsets, resizes/refresh/scramble faults; cell-by-cell oracle from the application's own record",
   text="Seeded simulation of complete sessions: every run starts a real Vaxis on a simulated console, negotiates capabilities with the reference terminal (all 1024 gating subsets walked by index), draws a generated frame history with resizes (signal seam or in-band), refreshes and display scrambles injected, user input arriving meanwhile, and compares the terminal with the application's own record after every flush. Frame histories and (previous cell, next cell) pairs are sampled, not enumerated: evidence, not proof, which is the level a diff renderer over an unbounded history space admits.",
   note="Trusted: simterm as a standards-conforming terminal for the emitted vocabulary (cells the standards leave open are marked unspecified and their survival is itself a violation); uniseg/go-runewidth as width personalities; prompt (0-5 ms) terminal replies; reliable FIFO streams."),
}
PENDING = "check not built yet in this session; it will be claimed when its world exists (see DESIGN.md §12)"
na = {
 "C03": PENDING, "C04": PENDING, "C05": PENDING, "C06": PENDING, "C07": PENDING,
 "C10": PENDING, "C12": PENDING, "C13": PENDING, "C15": PENDING, "C20": PENDING,
 "C09": "pure functions of one report / one (event, binding) pair: no schedule, clock, fault or interleaving for a simulator to control; delivery of key events through the concurrent pipeline is decided under C03",
 "C11": "window clipping and the text helpers are pure functions of (window tree, call); no goroutine, timer or stream is involved",
 "C14": "widget Draw and Surface addressing are pure functions of (constraint, content); violations sit at integer boundaries that enumeration, not scheduling, finds",
 "C16": "the two soft-wrap scanners are pure functions of (text, width)",
 "C17": "both line editors are sequential state machines driven by values handed to a method; nothing they depend on can be delayed, reordered, interrupted or shared",
 "C18": "the styled-text codecs are pure functions; the one part with two communicating parties (renderer SGR understood by the emulator) is exercised under C12",
 "C19": "list and pager widgets are sequential state machines over method calls and draws; no nondeterminism to control",
}
