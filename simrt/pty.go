package simrt

import (
	"io"
	"os"
	"os/exec"
	"syscall"

	"github.com/creack/pty"
)

// PTY is what the embedded terminal needs from its pseudo terminal. *os.File
// satisfies it; under simulation a harness-provided object does.
type PTY interface {
	io.ReadWriteCloser
	WriteString(string) (int, error)
}

// PTYStart replaces pty.StartWithAttrs. Under simulation no child process is
// started and no descriptor is opened: the scheduler's MakePTY hook supplies
// the simulated pseudo terminal.
func PTYStart(cmd *exec.Cmd, ws *pty.Winsize, attrs *syscall.SysProcAttr) (PTY, error) {
	s := active()
	if s == nil {
		f, err := pty.StartWithAttrs(cmd, ws, attrs)
		if err != nil {
			return nil, err
		}
		return f, nil
	}
	if s.MakePTY == nil {
		return nil, os.ErrInvalid
	}
	return s.MakePTY(int(ws.Cols), int(ws.Rows)), nil
}

// PTYSetsize replaces pty.Setsize.
func PTYSetsize(p PTY, ws *pty.Winsize) error {
	if f, ok := p.(*os.File); ok {
		return pty.Setsize(f, ws)
	}
	if r, ok := p.(interface{ Setsize(cols, rows int) }); ok {
		r.Setsize(int(ws.Cols), int(ws.Rows))
	}
	return nil
}
