package simrt

import (
	"fmt"
	"os"
	"os/signal"
	"reflect"
	"sync"
	"sync/atomic"
	"unsafe"
)

// ------------------------------------------------------------------ channels

func chanID[T any](ch <-chan T) any { return unsafe.Pointer(reflect.ValueOf(ch).Pointer()) }

// Recv replaces `<-ch`.
func Recv[T any](ch <-chan T, site string) T {
	s := active()
	if s == nil {
		return <-ch
	}
	id := chanID(ch)
	t := s.pre(site, id)
	s.chanRecvPre(t, id)
	v := <-ch
	s.chanRecvPost(t, id)
	s.post(t)
	return v
}

// Recv2 replaces `v, ok := <-ch`.
func Recv2[T any](ch <-chan T, site string) (T, bool) {
	s := active()
	if s == nil {
		v, ok := <-ch
		return v, ok
	}
	id := chanID(ch)
	t := s.pre(site, id)
	s.chanRecvPre(t, id)
	v, ok := <-ch
	s.chanRecvPost(t, id)
	s.post(t)
	return v, ok
}

// SendTo replaces `ch <- v` as `simrt.SendTo(ch, site)(v)`.
func SendTo[T any](ch chan<- T, site string) func(T) {
	return func(v T) {
		s := active()
		if s == nil {
			ch <- v
			return
		}
		id := any(unsafe.Pointer(reflect.ValueOf(ch).Pointer()))
		t := s.pre(site, id)
		s.chanSendPre(t, id)
		ch <- v
		s.chanSendPost(t, id)
		s.post(t)
	}
}

// Close replaces close(ch).
func Close[T any](ch chan<- T, site string) {
	s := active()
	if s == nil {
		close(ch)
		return
	}
	id := any(unsafe.Pointer(reflect.ValueOf(ch).Pointer()))
	t := s.pre(site, id)
	s.chanSendPre(t, id)
	close(ch)
	t.inOp = false
}

// ZeroOf returns the zero value of a channel's element type (used by the
// select rewrite to declare temporaries without naming the type).
func ZeroOf[T any](ch <-chan T) (z T) { return }

// SelCase is one communication clause of a rewritten select statement.
type SelCase struct {
	ch   reflect.Value
	dir  reflect.SelectDir
	send reflect.Value
	set  func(v reflect.Value, ok bool)
	id   any
}

// CaseRecv builds a receive clause; v and ok may be nil.
func CaseRecv[T any](ch <-chan T, v *T, ok *bool) SelCase {
	c := SelCase{ch: reflect.ValueOf(ch), dir: reflect.SelectRecv}
	if ch != nil {
		c.id = unsafe.Pointer(c.ch.Pointer())
	}
	c.set = func(rv reflect.Value, rok bool) {
		if v != nil {
			var z T
			if rok && rv.IsValid() {
				reflect.ValueOf(&z).Elem().Set(rv)
			}
			*v = z
		}
		if ok != nil {
			*ok = rok
		}
	}
	return c
}

// CaseSendTo builds a send clause: simrt.CaseSendTo(ch)(v).
func CaseSendTo[T any](ch chan<- T) func(T) SelCase {
	return func(v T) SelCase {
		c := SelCase{ch: reflect.ValueOf(ch), dir: reflect.SelectSend}
		if ch != nil {
			c.id = unsafe.Pointer(c.ch.Pointer())
		}
		var iv any = v
		if iv == nil {
			c.send = reflect.Zero(reflect.TypeOf(ch).Elem())
		} else {
			c.send = reflect.ValueOf(&v).Elem()
		}
		return c
	}
}

// Select replaces a select statement. It returns the index of the chosen
// clause, or -1 for default.
func Select(site string, hasDefault bool, cases ...SelCase) int {
	s := active()
	if s == nil {
		rc := make([]reflect.SelectCase, 0, len(cases)+1)
		for _, c := range cases {
			rc = append(rc, reflect.SelectCase{Dir: c.dir, Chan: c.ch, Send: c.send})
		}
		if hasDefault {
			rc = append(rc, reflect.SelectCase{Dir: reflect.SelectDefault})
		}
		k, rv, ok := reflect.Select(rc)
		if k == len(cases) {
			return -1
		}
		if cases[k].set != nil {
			cases[k].set(rv, ok)
		}
		return k
	}
	t := s.pre(site, nil)
	n := len(cases)
	// Probe every clause without blocking, starting at a tape-chosen clause, so
	// that the tape and not the runtime picks among several ready ones.
	start := 0
	if n >= 2 {
		ready := 0
		for i := 0; i < n; i++ {
			if caseReady(cases[i]) {
				ready++
			}
		}
		if ready >= 2 {
			s.MultiSel++
		}
		start = s.Tape.Draw(n)
	}
	for i := 0; i < n; i++ {
		k := (start + i) % n
		c := cases[k]
		if !c.ch.IsValid() || c.ch.IsNil() {
			continue
		}
		if c.dir == reflect.SelectRecv {
			rv, ok, got := tryRecv(c.ch)
			if got {
				if c.id != nil {
					s.chanRecvPre(t, c.id)
					s.chanRecvPost(t, c.id)
				}
				c.set(rv, ok)
				t.inOp = false
				return k
			}
		} else {
			if c.id != nil {
				s.chanSendPre(t, c.id)
			}
			if c.ch.TrySend(c.send) {
				if c.id != nil {
					s.chanSendPost(t, c.id)
				}
				t.inOp = false
				return k
			}
		}
	}
	if hasDefault {
		t.inOp = false
		return -1
	}
	rc := make([]reflect.SelectCase, 0, n)
	for _, c := range cases {
		rc = append(rc, reflect.SelectCase{Dir: c.dir, Chan: c.ch, Send: c.send})
		if c.dir == reflect.SelectRecv && c.id != nil {
			s.chanRecvPre(t, c.id)
		}
	}
	k, rv, ok := reflect.Select(rc)
	c := cases[k]
	if c.dir == reflect.SelectRecv {
		if c.id != nil {
			s.chanRecvPost(t, c.id)
		}
		c.set(rv, ok)
	} else if c.id != nil {
		s.chanSendPost(t, c.id)
	}
	s.post(t)
	return k
}

// caseReady reports whether a clause could proceed right now, as far as can be
// known without performing it: buffered data or buffer space. Unbuffered
// rendez-vous and timer channels are not introspectable and count as not
// ready here (they are still tried in turn).
func caseReady(c SelCase) bool {
	if !c.ch.IsValid() || c.ch.IsNil() {
		return false
	}
	if c.dir == reflect.SelectRecv {
		return c.ch.Len() > 0
	}
	return c.ch.Cap() > 0 && c.ch.Len() < c.ch.Cap()
}

func tryRecv(ch reflect.Value) (reflect.Value, bool, bool) {
	rv, ok := ch.TryRecv()
	if ok {
		return rv, true, true
	}
	// TryRecv reports (zero,false) both for "would block" and for "closed".
	// A closed channel yields a valid zero Value; a would-block an invalid one.
	if rv.IsValid() {
		return rv, false, true
	}
	return rv, false, false
}

// -------------------------------------------------------------------- mutex

// Lock replaces (*sync.Mutex).Lock.
func Lock(mu *sync.Mutex, site string) {
	s := active()
	if s == nil {
		mu.Lock()
		return
	}
	t := s.me()
	s.park(t, site)
	for !mu.TryLock() {
		s.mu.Lock()
		s.Probes["lock-contended"]++
		s.mu.Unlock()
		s.waitOn(t, mu, site)
	}
	s.acquire(t, mu)
}

// Unlock replaces (*sync.Mutex).Unlock.
func Unlock(mu *sync.Mutex) {
	s := active()
	if s == nil {
		mu.Unlock()
		return
	}
	if t := s.running; t != nil {
		s.release(t, mu)
	}
	mu.Unlock()
	s.notify(mu)
}

// RLock / RUnlock / WLock / WUnlock give sync.RWMutex the same treatment.
func RLock(mu *sync.RWMutex, site string) {
	s := active()
	if s == nil {
		mu.RLock()
		return
	}
	t := s.me()
	s.park(t, site)
	for !mu.TryRLock() {
		s.waitOn(t, mu, site)
	}
	s.acquire(t, mu)
}

func RUnlock(mu *sync.RWMutex) {
	s := active()
	if s == nil {
		mu.RUnlock()
		return
	}
	if t := s.running; t != nil {
		s.release(t, mu)
	}
	mu.RUnlock()
	s.notify(mu)
}

func WLock(mu *sync.RWMutex, site string) {
	s := active()
	if s == nil {
		mu.Lock()
		return
	}
	t := s.me()
	s.park(t, site)
	for !mu.TryLock() {
		s.waitOn(t, mu, site)
	}
	s.acquire(t, mu)
}

func WUnlock(mu *sync.RWMutex) {
	s := active()
	if s == nil {
		mu.Unlock()
		return
	}
	if t := s.running; t != nil {
		s.release(t, mu)
	}
	mu.Unlock()
	s.notify(mu)
}

// Atomic is a scheduling point before a sync/atomic operation; it also gives
// the operation acquire+release semantics for the race oracle.
func Atomic(addr unsafe.Pointer, site string) {
	s := active()
	if s == nil {
		return
	}
	t := s.me()
	s.park(t, site)
	s.acquire(t, addr)
	s.release(t, addr)
}

// ---------------------------------------------------------------------- pool

// Pool replaces sync.Pool. Whether Get hands back a recycled object or a fresh
// one is a tape decision under simulation; without a scheduler it recycles
// last-in-first-out.
type Pool struct {
	New   func() any
	mu    sync.Mutex
	items []any
}

func (p *Pool) Get() any {
	p.mu.Lock()
	n := len(p.items)
	var x any
	reuse := n > 0
	s := active()
	if reuse && s != nil {
		reuse = s.Tape.Draw(2) == 1
		if reuse {
			s.Probes["pool-reuse"]++
		} else {
			s.Probes["pool-fresh"]++
		}
	}
	if reuse {
		k := n - 1
		if s != nil && n > 1 {
			k = n - 1 - s.Tape.Draw(n)
		}
		x = p.items[k]
		p.items = append(p.items[:k], p.items[k+1:]...)
	}
	p.mu.Unlock()
	if s != nil && s.running != nil {
		s.acquire(s.running, p)
	}
	if x == nil && p.New != nil {
		x = p.New()
	}
	return x
}

func (p *Pool) Put(x any) {
	if x == nil {
		return
	}
	if s := active(); s != nil && s.running != nil {
		s.release(s.running, p)
	}
	p.mu.Lock()
	if len(p.items) < 64 {
		p.items = append(p.items, x)
	}
	p.mu.Unlock()
}

// ------------------------------------------------------------------- signals

type sigReg struct {
	ch   chan<- os.Signal
	sigs []os.Signal
}

func SignalNotify(c chan<- os.Signal, sigs ...os.Signal) {
	s := active()
	if s == nil {
		signal.Notify(c, sigs...)
		return
	}
	s.mu.Lock()
	s.signals = append(s.signals, sigReg{ch: c, sigs: sigs})
	s.mu.Unlock()
}

func SignalStop(c chan<- os.Signal) {
	s := cur.Load()
	if s == nil {
		signal.Stop(c)
		return
	}
	s.mu.Lock()
	out := s.signals[:0]
	for _, r := range s.signals {
		if r.ch != c {
			out = append(out, r)
		}
	}
	s.signals = out
	s.mu.Unlock()
}

// Deliver sends sig to every registered channel the way the runtime does: a
// non-blocking send. It reports how many channels accepted it.
func (s *Sched) Deliver(sig os.Signal) int {
	s.mu.Lock()
	regs := append([]sigReg(nil), s.signals...)
	s.mu.Unlock()
	n := 0
	for _, r := range regs {
		match := len(r.sigs) == 0
		for _, x := range r.sigs {
			if x == sig {
				match = true
			}
		}
		if !match {
			continue
		}
		select {
		case r.ch <- sig:
			n++
		default:
		}
	}
	return n
}

// SignalRegistrations is the number of live Notify registrations.
func (s *Sched) SignalRegistrations() int {
	s.mu.Lock()
	defer s.mu.Unlock()
	return len(s.signals)
}

// --------------------------------------------------------------- environment

func Getenv(k string) string {
	s := cur.Load()
	if s == nil {
		return os.Getenv(k)
	}
	return s.Env[k]
}

// ---------------------------------------------------------------- failpoints

type failArm struct {
	after int // panic at the after-th call (1-based)
	calls int
	fired bool
}

// InjectedPanic is the value an armed failpoint panics with.
type InjectedPanic struct{ Name string }

func (p InjectedPanic) Error() string { return "simrt: injected panic at " + p.Name }

// Arm makes the k-th call of Failpoint(name) panic.
func (s *Sched) Arm(name string, k int) {
	s.mu.Lock()
	s.fail[name] = &failArm{after: k}
	s.mu.Unlock()
}

func (s *Sched) FailFired(name string) bool {
	s.mu.Lock()
	defer s.mu.Unlock()
	a := s.fail[name]
	return a != nil && a.fired
}

func (s *Sched) FailCalls(name string) int {
	s.mu.Lock()
	defer s.mu.Unlock()
	if a := s.fail[name]; a != nil {
		return a.calls
	}
	return 0
}

func Failpoint(name string) {
	s := active()
	if s == nil {
		return
	}
	s.mu.Lock()
	a := s.fail[name]
	fire := false
	if a != nil {
		a.calls++
		if !a.fired && a.calls == a.after {
			a.fired = true
			fire = true
		}
	}
	s.mu.Unlock()
	if fire {
		panic(InjectedPanic{Name: name})
	}
}

var _ = fmt.Sprint
var _ atomic.Int32

// AtomicP is placed around the address argument of a sync/atomic call.
func AtomicP[T any](p *T, site string) *T {
	Atomic(unsafe.Pointer(p), site)
	return p
}
