package simrt

import (
	"fmt"
	"unsafe"
)

// vclock is a sparse vector clock keyed by task id.
type vclock struct {
	m map[int]uint32
}

func (v *vclock) tick(id int) {
	if v.m == nil {
		v.m = map[int]uint32{}
	}
	v.m[id]++
}

func (v *vclock) get(id int) uint32 { return v.m[id] }

func (v *vclock) join(o *vclock) {
	if o == nil || len(o.m) == 0 {
		return
	}
	if v.m == nil {
		v.m = make(map[int]uint32, len(o.m))
	}
	for k, c := range o.m {
		if c > v.m[k] {
			v.m[k] = c
		}
	}
}

func (v *vclock) clone() vclock {
	n := vclock{m: make(map[int]uint32, len(v.m)+1)}
	for k, c := range v.m {
		n.m[k] = c
	}
	return n
}

type chanClock struct {
	snd vclock // joined by senders/closers before the operation
	rcv vclock // joined by receivers before the operation
}

type epoch struct {
	tid  int
	c    uint32
	site string
}

type shadowWord struct {
	w     epoch
	hasW  bool
	reads []epoch
}

func (s *Sched) objClock(obj any) *vclock {
	v := s.objVC[obj]
	if v == nil {
		v = &vclock{}
		s.objVC[obj] = v
	}
	return v
}

func (s *Sched) chanClock(ch any) *chanClock {
	c := s.chanVC[ch]
	if c == nil {
		c = &chanClock{}
		s.chanVC[ch] = c
	}
	return c
}

// release publishes t's clock on obj (mutex unlock, atomic, notify, pool put).
func (s *Sched) release(t *Task, obj any) {
	if !s.RaceOn {
		return
	}
	s.mu.Lock()
	s.objClock(obj).join(&t.vc)
	t.vc.tick(t.ID)
	s.mu.Unlock()
}

// acquire joins obj's clock into t (mutex lock, atomic, wait return, pool get).
func (s *Sched) acquire(t *Task, obj any) {
	if !s.RaceOn {
		return
	}
	s.mu.Lock()
	t.vc.join(s.objClock(obj))
	s.mu.Unlock()
}

func (s *Sched) chanSendPre(t *Task, ch any) {
	if !s.RaceOn {
		return
	}
	s.mu.Lock()
	c := s.chanClock(ch)
	c.snd.join(&t.vc)
	t.vc.tick(t.ID)
	s.mu.Unlock()
}

func (s *Sched) chanSendPost(t *Task, ch any) {
	if !s.RaceOn {
		return
	}
	s.mu.Lock()
	t.vc.join(&s.chanClock(ch).rcv)
	s.mu.Unlock()
}

func (s *Sched) chanRecvPre(t *Task, ch any) {
	if !s.RaceOn {
		return
	}
	s.mu.Lock()
	c := s.chanClock(ch)
	c.rcv.join(&t.vc)
	t.vc.tick(t.ID)
	s.mu.Unlock()
}

func (s *Sched) chanRecvPost(t *Task, ch any) {
	if !s.RaceOn {
		return
	}
	s.mu.Lock()
	t.vc.join(&s.chanClock(ch).snd)
	s.mu.Unlock()
}

// Acc records a plain memory access by the running task and checks it against
// earlier conflicting accesses (FastTrack-style, full read sets).
func Acc(p unsafe.Pointer, write bool, site string) {
	s := active()
	if s == nil || !s.RaceOn {
		return
	}
	t := s.running
	if t == nil {
		return
	}
	s.Accesses++
	if s.Preempt > 0 && s.Tape.Draw(s.Preempt) == 1 {
		s.park(t, "acc:"+site)
	}
	addr := uintptr(p)
	s.mu.Lock()
	defer s.mu.Unlock()
	w := s.shadow[addr]
	if w == nil {
		w = &shadowWord{}
		s.shadow[addr] = w
	}
	me := epoch{tid: t.ID, c: t.vc.get(t.ID), site: site}
	if w.hasW && w.w.tid != t.ID && w.w.c > t.vc.get(w.w.tid) {
		s.race(w.w, true, me, write)
	}
	if write {
		for _, r := range w.reads {
			if r.tid != t.ID && r.c > t.vc.get(r.tid) {
				s.race(r, false, me, true)
			}
		}
		w.w = me
		w.hasW = true
		w.reads = w.reads[:0]
		return
	}
	for i := range w.reads {
		if w.reads[i].tid == t.ID {
			w.reads[i] = me
			return
		}
	}
	w.reads = append(w.reads, me)
}

func (s *Sched) race(a epoch, aw bool, b epoch, bw bool) {
	k1, k2 := a.site, b.site
	if k2 < k1 {
		k1, k2 = k2, k1
	}
	key := k1 + "|" + k2
	if s.raceSeen[key] {
		return
	}
	s.raceSeen[key] = true
	rw := func(w bool) string {
		if w {
			return "write"
		}
		return "read"
	}
	s.Races = append(s.Races, fmt.Sprintf("%s %s (task %d %s) || %s %s (task %d %s)",
		rw(aw), a.site, a.tid, s.taskName(a.tid), rw(bw), b.site, b.tid, s.taskName(b.tid)))
}

func (s *Sched) taskName(id int) string {
	for _, t := range s.tasks {
		if t.ID == id {
			return t.Name
		}
	}
	return "?"
}
