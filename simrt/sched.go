// Package simrt is the deterministic-simulation runtime that /verif/simgen
// injects into a scratch copy of the repository. With no scheduler attached
// every entry point is a pass-through to the real primitive.
//
// One Sched exists per simulated run. The run executes inside one
// testing/synctest bubble; the bubble's root goroutine runs Sched.Run (and
// nothing else). Every other goroutine that matters is a *task*: exactly one
// task holds the baton at any time, the others are parked on private channels
// or durably blocked in a real channel operation.
package simrt

import (
	"fmt"
	"runtime"
	"runtime/debug"
	"sort"
	"strings"
	"sync"
	"sync/atomic"
	"testing/synctest"
	"time"
)

type taskState int32

const (
	stNew     taskState = iota // id reserved, goroutine not yet entered
	stParked                   // parked at a hook, eligible
	stWaiting                  // parked, waiting for Notify(obj); not eligible
	stRunning                  // holds the baton (or is blocked in an op)
	stDone
)

// Task is one schedulable party.
type Task struct {
	ID        int
	Name      string
	Lib       bool // spawned by instrumented library code (go statement / AfterFunc)
	s         *Sched
	resume    chan struct{}
	state     taskState
	site      string
	waitObj   any
	lostBaton bool // observed blocked at a quiescent point while not parked
	inOp      bool
	opSite    string
	opObj     any
	PanicVal  any
	PanicText string
	vc        vclock
	// stallUntil > Now(): the task is parked but frozen by an injected stall
	// (a descheduled thread / slow node); not eligible until then.
	stallUntil time.Duration
}

// Result codes of a run.
const (
	EndFinished  = "finished"
	EndDeadlock  = "deadlock"
	EndStepLimit = "step-limit"
	EndTimeLimit = "time-limit"
)

type Sched struct {
	mu       sync.Mutex
	tasks    []*Task
	seq      int
	running  *Task
	last     *Task
	wake     chan struct{}
	Tape     *Tape // schedule tape
	Steps    int
	MaxSteps int
	MaxTime  time.Duration
	Stick    int // extra weight on "keep running the last task"
	start    time.Time
	hash     uint64
	Logging  bool
	Log      []string
	killing  atomic.Bool
	finished atomic.Bool
	End      string
	Blocked  []string // wait-for picture on deadlock
	Switches int      // context switches (chosen task != last task)
	MultiSel int      // selects that found >=2 ready cases

	Env     map[string]string
	signals []sigReg
	fail    map[string]*failArm
	pools   int

	// race oracle
	RaceOn   bool
	Preempt  int // 1/Preempt of accesses become scheduling points (0 = never)
	// Stall fault: with probability 1/StallOneIn the task chosen at a step is
	// not resumed but frozen for a tape-chosen simulated duration (at most
	// StallMax times per run). Everybody else runs on and simulated time may
	// pass: this is what an OS pre-emption of one thread, or a slow party,
	// looks like. 0 = never (the default: only worlds whose oracles do not
	// depend on a task's promptness switch it on).
	StallOneIn int
	StallMax   int
	Stalls     int
	// StallLib extends the stall fault from the application's own threads
	// (tasks the harness started: they call the library's API) to goroutines
	// the library started itself (parser, input loop, timers, encoders).
	StallLib bool
	// StallOK, when set, further narrows which tasks may be frozen (a world
	// keeps its own stubs - terminal, wire - out of it when their latency is
	// a planned part of the case).
	StallOK func(t *Task) bool
	Races    []string
	raceSeen map[string]bool
	objVC    map[any]*vclock
	chanVC   map[any]*chanClock
	shadow   map[uintptr]*shadowWord
	Accesses int

	Probes map[string]int

	// MakePTY supplies the simulated pseudo terminal for widgets/term.
	MakePTY func(cols, rows int) PTY
	// OnTaskPanic is called (on the panicking task's goroutine, after the
	// panic was recorded) when a task dies of a panic.
	OnTaskPanic func(t *Task)
	// AtStep runs fn on the scheduler goroutine right before step k is
	// chosen (all tasks are parked or blocked at that point).
	atStep map[int][]func()
}

// AtStep registers fn to run at a quiescent point just before step k.
func (s *Sched) AtStep(k int, fn func()) {
	s.mu.Lock()
	if s.atStep == nil {
		s.atStep = map[int][]func(){}
	}
	s.atStep[k] = append(s.atStep[k], fn)
	s.mu.Unlock()
}

var cur atomic.Pointer[Sched]

// Progress counts scheduler steps of all runs of this process. The worker's
// wall-clock watchdog (the one place where real time is read) uses it to tell
// a CPU loop in the code under test - no step for a long time - from a run
// that is merely slow on a loaded machine.
var Progress atomic.Int64

// Cur returns the scheduler attached to this process, or nil.
func Cur() *Sched { return cur.Load() }

func active() *Sched {
	s := cur.Load()
	if s == nil || s.killing.Load() {
		return nil
	}
	return s
}

// NewSched creates a scheduler and attaches it. Must be called inside the
// bubble.
func NewSched(tape *Tape) *Sched {
	s := &Sched{
		wake:     make(chan struct{}, 1),
		Tape:     tape,
		MaxSteps: 200000,
		MaxTime:  10 * time.Minute,
		start:    time.Now(),
		hash:     14695981039346656037,
		Env:      map[string]string{},
		fail:     map[string]*failArm{},
		Probes:   map[string]int{},
		raceSeen: map[string]bool{},
		objVC:    map[any]*vclock{},
		chanVC:   map[any]*chanClock{},
		shadow:   map[uintptr]*shadowWord{},
	}
	cur.Store(s)
	return s
}

// Detach removes the scheduler (only once nothing can call hooks any more).
func Detach() { cur.Store(nil) }

func (s *Sched) Probe(name string) {
	s.mu.Lock()
	s.Probes[name]++
	s.mu.Unlock()
}

// Now is simulated time since the start of the run.
func (s *Sched) Now() time.Duration { return time.Since(s.start) }

func (s *Sched) Hash() uint64 { return s.hash }

func (s *Sched) mix(str string) {
	h := s.hash
	for i := 0; i < len(str); i++ {
		h ^= uint64(str[i])
		h *= 1099511628211
	}
	s.hash = h
}

func (s *Sched) mixInt(v int) {
	h := s.hash
	for i := 0; i < 4; i++ {
		h ^= uint64(byte(v >> (8 * i)))
		h *= 1099511628211
	}
	s.hash = h
}

func (s *Sched) signal() {
	select {
	case s.wake <- struct{}{}:
	default:
	}
}

// newTask reserves a task id. Called by the (sole) running task or the root.
func (s *Sched) newTask(name string, lib bool) *Task {
	s.mu.Lock()
	t := &Task{ID: s.seq, Name: name, Lib: lib, s: s, resume: make(chan struct{}), state: stNew}
	s.seq++
	if p := s.running; p != nil {
		t.vc = p.vc.clone()
		p.vc.tick(p.ID)
	}
	t.vc.tick(t.ID)
	s.tasks = append(s.tasks, t)
	s.mu.Unlock()
	return t
}

// park parks the calling task as eligible and waits for the baton.
func (s *Sched) park(t *Task, site string) {
	s.mu.Lock()
	t.state = stParked
	t.site = site
	s.mu.Unlock()
	s.signal()
	<-t.resume
	if s.killing.Load() {
		runtime.Goexit()
	}
}

// waitOn parks the calling task as not eligible until Notify(obj).
func (s *Sched) waitOn(t *Task, obj any, site string) {
	s.mu.Lock()
	t.state = stWaiting
	t.waitObj = obj
	t.site = site
	s.mu.Unlock()
	s.signal()
	<-t.resume
	if s.killing.Load() {
		runtime.Goexit()
	}
}

func (s *Sched) notify(obj any) {
	s.mu.Lock()
	for _, t := range s.tasks {
		if t.state == stWaiting && t.waitObj == obj {
			t.state = stParked
			t.waitObj = nil
		}
	}
	s.mu.Unlock()
}

// me returns the task that holds the baton. Every hook other than post/Enter
// is only ever called by that task.
func (s *Sched) me() *Task {
	t := s.running
	if t == nil {
		panic("simrt: hook called with no running task")
	}
	return t
}

// pre is a scheduling point before a possibly blocking operation.
func (s *Sched) pre(site string, obj any) *Task {
	t := s.me()
	s.park(t, site)
	t.inOp = true
	t.opSite = site
	t.opObj = obj
	return t
}

// post is called immediately after a possibly blocking operation returned.
func (s *Sched) post(t *Task) {
	t.inOp = false
	if s.killing.Load() {
		return
	}
	if !t.lostBaton {
		return
	}
	t.lostBaton = false
	s.park(t, "woke:"+t.opSite)
}

// Run is the scheduler loop; it must run on the bubble's root goroutine.
func (s *Sched) Run() {
	idleWatch := 0
	for {
		synctest.Wait()
		s.mu.Lock()
		var elig []*Task
		alive := 0
		now := s.Now()
		var nextThaw time.Duration // earliest end of a stall among frozen tasks (0 = none)
		for _, t := range s.tasks {
			switch t.state {
			case stParked:
				alive++
				if t.stallUntil > now {
					if nextThaw == 0 || t.stallUntil < nextThaw {
						nextThaw = t.stallUntil
					}
					continue
				}
				elig = append(elig, t)
			case stWaiting:
				alive++
			case stRunning:
				alive++
				t.lostBaton = true
			}
		}
		if fns := s.atStep[s.Steps+1]; len(fns) > 0 {
			delete(s.atStep, s.Steps+1)
			s.mu.Unlock()
			for _, fn := range fns {
				fn()
			}
			continue
		}
		if s.finished.Load() {
			s.End = EndFinished
			s.mu.Unlock()
			break
		}
		if alive == 0 {
			s.End = EndFinished
			s.mu.Unlock()
			break
		}
		if s.Steps >= s.MaxSteps {
			s.End = EndStepLimit
			s.mu.Unlock()
			break
		}
		if s.Now() > s.MaxTime {
			s.End = EndTimeLimit
			s.mu.Unlock()
			break
		}
		if len(elig) == 0 {
			s.running = nil
			s.mu.Unlock()
			// Nothing can run: block so that the bubble's clock can
			// advance to the next timer. If nothing wakes for a very
			// long simulated time, it is a deadlock.
			idle := 30 * time.Minute
			if nextThaw > 0 {
				idle = nextThaw - now
			}
			tm := time.NewTimer(idle)
			select {
			case <-s.wake:
				tm.Stop()
				idleWatch = 0
				continue
			case <-tm.C:
				if nextThaw > 0 {
					continue // a frozen task thaws now
				}
				idleWatch++
				s.mu.Lock()
				s.End = EndDeadlock
				s.Blocked = s.picture()
				s.mu.Unlock()
			}
			break
		}
		// drain a stale wake token
		select {
		case <-s.wake:
		default:
		}
		sort.Slice(elig, func(i, j int) bool { return elig[i].ID < elig[j].ID })
		// put the last-run task first: draw 0 == no context switch
		if s.last != nil {
			for i, t := range elig {
				if t == s.last {
					copy(elig[1:i+1], elig[:i])
					elig[0] = t
					break
				}
			}
		}
		var pick *Task
		if len(elig) == 1 {
			pick = elig[0]
		} else {
			n := len(elig)
			d := s.Tape.Draw(n + s.Stick)
			if d >= n {
				d = 0
			}
			pick = elig[d]
		}
		if s.StallOneIn > 0 && s.Stalls < s.StallMax && (!pick.Lib || s.StallLib) && (s.StallOK == nil || s.StallOK(pick)) && s.Tape.Draw(s.StallOneIn) == 1 {
			// freeze the chosen task instead of running it
			unit := []time.Duration{20 * time.Microsecond, time.Millisecond, 15 * time.Millisecond, 70 * time.Millisecond}[s.Tape.Draw(4)]
			d := unit/8 + time.Duration(s.Tape.Draw(8))*unit/8
			pick.stallUntil = now + d
			s.Stalls++
			s.Probes["stall"]++
			s.Steps++
			Progress.Add(1)
			s.mixInt(-pick.ID - 1)
			s.mixInt(int(d))
			if s.Logging {
				s.Log = append(s.Log, fmt.Sprintf("%d t=%v STALL %d/%s for %v @%s", s.Steps, now, pick.ID, pick.Name, d, pick.site))
			}
			s.mu.Unlock()
			continue
		}
		if pick != s.last {
			s.Switches++
		}
		s.last = pick
		s.running = pick
		pick.state = stRunning
		s.Steps++
		Progress.Add(1)
		s.mixInt(pick.ID)
		s.mix(pick.site)
		if s.Logging {
			s.Log = append(s.Log, fmt.Sprintf("%d t=%v %d/%s @%s", s.Steps, s.Now(), pick.ID, pick.Name, pick.site))
		}
		s.mu.Unlock()
		pick.resume <- struct{}{}
	}
	_ = idleWatch
	s.kill()
}

// picture describes every live task (call with s.mu held).
func (s *Sched) picture() []string {
	var out []string
	for _, t := range s.tasks {
		switch t.state {
		case stDone, stNew:
			continue
		case stParked:
			out = append(out, fmt.Sprintf("%d/%s parked@%s", t.ID, t.Name, t.site))
		case stWaiting:
			out = append(out, fmt.Sprintf("%d/%s waiting@%s on %s", t.ID, t.Name, t.site, objName(t.waitObj)))
		case stRunning:
			if t.inOp {
				out = append(out, fmt.Sprintf("%d/%s blocked@%s", t.ID, t.Name, t.opSite))
			} else {
				out = append(out, fmt.Sprintf("%d/%s blocked(unhooked) after %s", t.ID, t.Name, t.site))
			}
		}
	}
	return out
}

// Picture returns the wait-for picture of all live tasks.
func (s *Sched) Picture() []string {
	s.mu.Lock()
	defer s.mu.Unlock()
	return s.picture()
}

func objName(o any) string {
	if o == nil {
		return "nil"
	}
	if n, ok := o.(interface{ SimName() string }); ok {
		return n.SimName()
	}
	return fmt.Sprintf("%T", o)
}

// kill releases every parked task into runtime.Goexit.
func (s *Sched) kill() {
	s.killing.Store(true)
	for round := 0; round < 50; round++ {
		s.mu.Lock()
		var parked []*Task
		for _, t := range s.tasks {
			if t.state == stParked || t.state == stWaiting {
				parked = append(parked, t)
				t.state = stRunning
			}
		}
		s.mu.Unlock()
		if len(parked) == 0 {
			break
		}
		for _, t := range parked {
			t.resume <- struct{}{}
		}
		synctest.Wait()
	}
}

// Leaked lists tasks that are still alive after the run (blocked in real
// operations that nothing will ever complete).
func (s *Sched) Leaked() []string {
	s.mu.Lock()
	defer s.mu.Unlock()
	var out []string
	for _, t := range s.tasks {
		if t.state != stDone && t.state != stNew {
			where := t.site
			if t.inOp {
				where = t.opSite
			}
			out = append(out, fmt.Sprintf("%d/%s@%s", t.ID, t.Name, where))
		}
	}
	return out
}

// Panics lists task panics recorded by Exit.
func (s *Sched) Panics() []*Task {
	s.mu.Lock()
	defer s.mu.Unlock()
	var out []*Task
	for _, t := range s.tasks {
		if t.PanicVal != nil {
			out = append(out, t)
		}
	}
	return out
}

// LiveLibTasks lists library-spawned tasks that have not exited.
func (s *Sched) LiveLibTasks() []string {
	s.mu.Lock()
	defer s.mu.Unlock()
	var out []string
	for _, t := range s.tasks {
		if t.Lib && t.state != stDone && t.state != stNew {
			where := t.site
			if t.inOp {
				where = t.opSite
			}
			out = append(out, fmt.Sprintf("%d/%s@%s", t.ID, t.Name, where))
		}
	}
	return out
}

// Finish tells the scheduler loop to stop at the next quiescent point.
func (s *Sched) Finish() { s.finished.Store(true) }

// ---------------------------------------------------------------- harness API

// Go starts a harness task.
func (s *Sched) Go(name string, fn func()) *Task {
	t := s.newTask(name, false)
	go func() {
		Enter(t)
		defer Exit(t)
		fn()
	}()
	return t
}

// Yield is a plain scheduling point.
func Yield(site string) {
	s := active()
	if s == nil {
		return
	}
	s.park(s.me(), site)
}

// Sleep sleeps on the simulated clock and parks afterwards.
func Sleep(d time.Duration) {
	s := active()
	if s == nil {
		time.Sleep(d)
		return
	}
	t := s.me()
	if d <= 0 {
		s.park(t, "sleep0")
		return
	}
	t.inOp = true
	t.opSite = "sleep"
	time.Sleep(d)
	t.inOp = false
	if s.killing.Load() {
		return
	}
	t.lostBaton = false
	s.park(t, "slept")
}

// WaitUntil blocks the calling task cooperatively until cond() holds. cond is
// re-evaluated after every Notify(obj).
func WaitUntil(obj any, site string, cond func() bool) {
	s := active()
	if s == nil {
		panic("simrt.WaitUntil without scheduler")
	}
	t := s.me()
	for !cond() {
		s.waitOn(t, obj, site)
	}
	s.acquire(t, obj)
}

// Notify makes tasks waiting on obj eligible again. It is also a release on
// obj for the race oracle (WaitUntil's return is the matching acquire).
func Notify(obj any) {
	s := active()
	if s == nil {
		return
	}
	if t := s.running; t != nil {
		s.release(t, obj)
	}
	s.notify(obj)
}

// SyncPoint is harness-level synchronisation the race oracle must know about:
// the caller acquires everything released on obj so far and releases its own
// history on it (like an atomic read-modify-write on obj).
func SyncPoint(obj any) {
	s := active()
	if s == nil {
		return
	}
	if t := s.running; t != nil {
		s.acquire(t, obj)
		s.release(t, obj)
	}
}

// ------------------------------------------------------- instrumentation API

// Spawn reserves a task id for a goroutine about to be started by library code.
func Spawn(site string) *Task {
	s := active()
	if s == nil {
		return nil
	}
	return s.newTask(site, true)
}

// Enter binds the new goroutine to its task and parks it.
func Enter(t *Task) {
	if t == nil {
		return
	}
	s := t.s
	if s.killing.Load() {
		runtime.Goexit()
	}
	s.park(t, "enter:"+t.Name)
}

// Exit is deferred as the outermost frame of every task.
func Exit(t *Task) {
	r := recover()
	if t == nil {
		if r != nil {
			panic(r)
		}
		return
	}
	s := t.s
	s.mu.Lock()
	t.state = stDone
	if r != nil {
		t.PanicVal = r
		t.PanicText = fmt.Sprint(r) + "\n" + trimStack(string(debug.Stack()))
	}
	cb := s.OnTaskPanic
	s.mu.Unlock()
	if r != nil && cb != nil {
		cb(t)
	}
	s.signal()
}

func trimStack(st string) string {
	lines := strings.Split(st, "\n")
	var out []string
	for i := 0; i < len(lines) && len(out) < 24; i++ {
		l := lines[i]
		if strings.Contains(l, "runtime/debug") || strings.Contains(l, "simrt.Exit") || strings.Contains(l, "runtime/panic") {
			continue
		}
		out = append(out, l)
	}
	return strings.Join(out, "\n")
}

// PanicSite extracts "file.go:func" frames of interest from a panic text: the
// first frame inside the repository packages that is not simrt itself.
func PanicSite(text string) string {
	lines := strings.Split(text, "\n")
	for i := 0; i+1 < len(lines); i++ {
		l := lines[i]
		if strings.HasPrefix(l, "git.sr.ht/~rockorager/vaxis") && !strings.Contains(l, "/simrt.") {
			fn := l
			if k := strings.LastIndex(fn, "("); k > 0 {
				fn = fn[:k]
			}
			fn = strings.TrimPrefix(fn, "git.sr.ht/~rockorager/vaxis")
			return fn
		}
	}
	return ""
}

// AfterFunc replaces time.AfterFunc: the callback becomes a task whose id is
// reserved now and which registers only when the timer fires.
func AfterFunc(d time.Duration, f func(), site string) *time.Timer {
	s := active()
	if s == nil {
		return time.AfterFunc(d, f)
	}
	parent := s.me()
	vc := parent.vc.clone()
	parent.vc.tick(parent.ID)
	s.mu.Lock()
	id := s.seq // reserved now, by the sole running task
	s.seq++
	s.Probes["afterfunc"]++
	s.mu.Unlock()
	return time.AfterFunc(d, func() {
		if s.killing.Load() {
			return
		}
		t := s.newTaskFromTimer(id, site, vc)
		Enter(t)
		defer Exit(t)
		f()
	})
}

func (s *Sched) newTaskFromTimer(id int, name string, vc vclock) *Task {
	s.mu.Lock()
	t := &Task{ID: id, Name: "timer:" + name, Lib: true, s: s, resume: make(chan struct{}), state: stNew}
	t.vc = vc
	t.vc.tick(t.ID)
	s.tasks = append(s.tasks, t)
	s.mu.Unlock()
	return t
}
