package simrt

// Tape is a recorded sequence of bounded draws. In generation mode values come
// from a splitmix64 stream; in replay mode from In (0 once exhausted, so that a
// truncated tape means "simplest behaviour from here on").
type Tape struct {
	In     []uint32
	Replay bool
	Out    []uint32
	pos    int
	state  uint64
}

func NewTape(seed uint64) *Tape { return &Tape{state: seed} }

func ReplayTape(in []uint32) *Tape { return &Tape{In: in, Replay: true} }

func SplitMix(x uint64) uint64 {
	x += 0x9E3779B97F4A7C15
	z := x
	z = (z ^ (z >> 30)) * 0xBF58476D1CE4E5B9
	z = (z ^ (z >> 27)) * 0x94D049BB133111EB
	return z ^ (z >> 31)
}

func (t *Tape) next() uint64 {
	t.state += 0x9E3779B97F4A7C15
	z := t.state
	z = (z ^ (z >> 30)) * 0xBF58476D1CE4E5B9
	z = (z ^ (z >> 27)) * 0x94D049BB133111EB
	return z ^ (z >> 31)
}

// Draw returns a value in [0,n). n<=1 consumes nothing.
func (t *Tape) Draw(n int) int {
	if n <= 1 {
		return 0
	}
	var v uint32
	if t.Replay {
		if t.pos < len(t.In) {
			v = t.In[t.pos] % uint32(n)
		}
		t.pos++
	} else {
		v = uint32(t.next() % uint64(n))
	}
	t.Out = append(t.Out, v)
	return int(v)
}

// Bool draws true with probability num/den (0 is false).
func (t *Tape) Chance(num, den int) bool {
	return t.Draw(den) >= den-num
}

// Pos is the number of draws consumed so far.
func (t *Tape) Pos() int { return len(t.Out) }
