module verif

go 1.26.8

require (
	github.com/anishathalye/porcupine v1.3.0
	golang.org/x/tools v0.50.0
)

require (
	golang.org/x/mod v0.41.0 // indirect
	golang.org/x/sync v0.23.0 // indirect
)
