#!/bin/bash
# usage: scripts_intake.sh <PROP> <name> <demo_pkg_dir> "<summary>" "<needs>" [check-prop]
# take a sub-agent's result from /tmp/sa/<PROP>-z1 (patch.diff + <dir>/zz_demo_test.go), confirm it in a
# clean scratch worktree (scripts_confirm_seed.sh), then run the property's quick check against it.
P=$1; M=$2; DIR=$3; SUM=$4; NEEDS=$5; CP=${6:-$P}
W=/tmp/sa/$P-z1; D=/tmp/seedout/$P/$M; mkdir -p $D
cp $W/patch.diff $D/patch.diff; cp $W/$DIR/zz_demo_test.go $D/demo_test.go
python3 - "$D/meta.json" "$P" "$DIR" "$SUM" "$NEEDS" <<'PY'
import json,sys
o,p,d,s,n=sys.argv[1:6]
pk='.' if d=='.' else './'+d
json.dump({'property':p,'summary':s,'needs':n,'demo_pkg_dir':d,'demo_run':'go test -vet=off -count=1 -run TestDemo '+pk},open(o,'w'),indent=1)
PY
/verif/scripts_confirm_seed.sh $P $M || exit 1
[ -d /verif/seeded/$P-$M ] || { echo "NOT CONFIRMED"; exit 1; }
/verif/scripts_mutant.sh /verif/seeded/$P-$M/patch.diff $CP | tee /tmp/seedout/$P/$M/check.log
