#!/bin/bash
# usage: scripts_confirm_seed.sh <PROP> <mN>  -- confirm a sub-agent's seeded change in the scratch worktree /tmp/wt/<PROP>
# (suite passes with it, demo fails with it, demo passes without it); on success store it under /verif/seeded/<PROP>-<mN>/
export GOFLAGS=-mod=mod GOPROXY=off GOSUMDB=off
P=$1; M=$2; W=/tmp/wt/$P; D=/tmp/seedout/$P/$M
[ -d "$W" ] || git -C /repo worktree add --detach $W HEAD >/dev/null 2>&1
git -C $W checkout -q --detach $(git -C /repo rev-parse HEAD) 2>/dev/null
git -C $W checkout -- . ; git -C $W clean -fdq
DIR=$(python3 -c "import json;print(json.load(open('$D/meta.json')).get('demo_pkg_dir','.'))")
RUN=$(python3 -c "import json;print(json.load(open('$D/meta.json')).get('demo_run','go test -vet=off -count=1 -run TestDemo .'))")
git -C $W apply $D/patch.diff || { echo "APPLY-FAIL"; exit 1; }
(cd $W && go build ./... && go test -vet=off -count=1 ./... >/tmp/seed_suite.log 2>&1) && SUITE=pass || SUITE=FAIL
cp $D/demo_test.go $W/$DIR/zz_demo_test.go
(cd $W && timeout 300 $RUN >/tmp/seed_demo_with.log 2>&1) && WITH=pass || WITH=fail
git -C $W apply -R $D/patch.diff
(cd $W && timeout 300 $RUN >/tmp/seed_demo_without.log 2>&1) && WITHOUT=pass || WITHOUT=fail
git -C $W checkout -- . ; git -C $W clean -fdq
echo "$P $M: suite-with-change=$SUITE demo-with-change=$WITH demo-without-change=$WITHOUT"
if [ "$SUITE" = pass ] && [ "$WITH" = fail ] && [ "$WITHOUT" = pass ]; then
  O=/verif/seeded/$P-$M; mkdir -p $O; cp $D/patch.diff $O/patch.diff; cp $D/demo_test.go $O/demo_test.go
  python3 - "$D/meta.json" "$O/meta.json" "$P" <<'PY'
import json,sys
m=json.load(open(sys.argv[1]))
m['property']=sys.argv[3]
m['confirmed']={'how':'scripts_confirm_seed.sh in scratch worktree /tmp/wt/%s: git apply patch; go test -vet=off -count=1 ./... (pass); demo (fails); git apply -R; demo (passes)'%sys.argv[3],
  'suite_with_change':'pass','demo_with_change':'fail','demo_without_change':'pass','base':'repo HEAD at confirmation time'}
json.dump(m,open(sys.argv[2],'w'),indent=1)
PY
  echo "stored $O"
fi
