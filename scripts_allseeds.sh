#!/bin/bash
# dev helper: run every stored seeded change against its property's quick check; log to $1
LOG=${1:-/tmp/seedcheck.log}; : > $LOG
cd /verif
for d in seeded/*/; do
  n=$(basename $d); P=${n%%-*}
  # a change written for one property may be the business of another property's check (recorded in check_with)
  [ -f $d/check_with ] && P=$(cat $d/check_with)
  if ! git -C /repo apply --check /verif/$d/patch.diff 2>/dev/null; then echo "$n APPLY-FAIL" >> $LOG; continue; fi
  out=$(./scripts_mutant.sh /verif/$d/patch.diff $P 2>&1 | tail -4)
  ex=$(echo "$out" | grep -o "exit=[0-9]*")
  v=$(echo "$out" | grep -m1 -o "VIOLATION property=[A-Z0-9]* replay=[^ ]*" | sed 's#.*/replays/##')
  echo "$n $ex $v" >> $LOG
done
echo DONE >> $LOG
