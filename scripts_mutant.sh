#!/bin/bash
# usage: scripts_mutant.sh <patch.diff> <PROP> [tier]   -- apply to /repo, run the check, undo
P=$1; ID=$2; T=${3:-quick}
cd /repo && git diff --quiet || { echo "/repo not clean"; exit 3; }
git -C /repo apply "$P" || { echo "patch does not apply"; exit 3; }
cd /verif && ./check $ID $T 2>&1 | grep -v "^KNOWN-FINDING\|conda" | cut -c1-400 | tail -6
echo "exit=${PIPESTATUS[0]}"
git -C /repo checkout -- . && git -C /repo clean -fdq
