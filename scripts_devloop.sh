#!/bin/bash
# dev helper: like devrun but carries on after watchdog hangs. usage: devloop.sh PROP FROM TO [flags]
export GOFLAGS=-mod=mod GOPROXY=off GOSUMDB=off GOTOOLCHAIN=local
rsync -a --delete --exclude go.sum /verif/harness/ /tmp/scr/harness/
[ -f /tmp/scr/harness/go.sum ] || cp /repo/go.sum /tmp/scr/harness/go.sum
(cd /tmp/scr/harness && go1.26.8 test -c -o /tmp/scr/worlds.test ./worlds) || exit 1
P=$1; F=$2; T=$3; shift 3
: > /tmp/scr/oall.jsonl
cd /tmp/scr
while [ $F -lt $T ]; do
  rm -f o.jsonl.hang
  ./worlds.test -test.run TestWorker -sim.prop $P -sim.from $F -sim.to $T -sim.out /tmp/scr/o.jsonl -sim.runwall 4s "$@" >/dev/null 2>&1
  grep -v '"done"' o.jsonl >> oall.jsonl
  if [ -f o.jsonl.hang ]; then
    python3 -c "
import json;r=json.load(open('/tmp/scr/o.jsonl.hang'));print('HANG index',r['spec']['index'],r['site'])"
    F=$(python3 -c "import json;print(json.load(open('/tmp/scr/o.jsonl.hang'))['spec']['index']+1)")
  else
    break
  fi
done
echo '{"done":true}' >> oall.jsonl
python3 /verif/scripts_summ.py /tmp/scr/oall.jsonl
