#!/bin/bash
# Builds the framework from files on disk only (offline) and warms the go1.26.8 build cache.
set -e
cd /verif
export GOFLAGS=-mod=mod GOPROXY=off GOSUMDB=off GOTOOLCHAIN=local
mkdir -p bin evidence replays
go1.26.8 build -o bin/simgen ./cmd/simgen
go1.26.8 build -o bin/driver ./cmd/driver
# warm the cache: instrument a scratch copy and compile the harness once
S=$(mktemp -d /tmp/vaxis-sim-setup-XXXXXX)
trap 'rm -rf "$S"' EXIT
rsync -a --exclude .git /repo/ "$S/repo/"
mkdir -p "$S/repo/simrt" && cp simrt/*.go "$S/repo/simrt/"
[ -d overlay ] && cp -r overlay/. "$S/repo/" || true
bin/simgen "$S/repo" >/dev/null
rsync -a harness/ "$S/harness/"
(cd "$S/harness" && go1.26.8 test -c -o "$S/worlds.test" ./worlds)
(cd "$S/repo" && go1.26.8 test -vet=off -count=1 ./... >/dev/null)
echo "setup ok"
