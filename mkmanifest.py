#!/usr/bin/env python3
# Regenerates MANIFEST.json from the table below (kept in one place so that it always validates).
import json
m = {
 "version": 1,
 "setup_cmd": "cd /verif && ./setup.sh",
 "hooks": {
  "guard": "none in /repo: instrumentation is generated into a scratch copy by /verif/bin/simgen (source-to-source rewrite of go/chan/select/mutex/atomic/timer/pool/signal/env sites to the injected package simrt)",
  "enable": "./check rsyncs /repo's working tree to a temp dir, runs simgen on it, adds /verif/simrt and /verif/overlay, and builds /verif/harness against that copy with go1.26.8",
  "baseline_off_cmd": "cd /repo && GOFLAGS=-mod=mod GOPROXY=off GOSUMDB=off go test -vet=off -count=1 ./...",
  "source_commits": [],
  "add_only": True
 },
 "engines": [
  {"name": "simrt+simgen+worlds", "path": "/verif", "serves_properties": [], "kind_free_text": "deterministic simulator: testing/synctest bubble (fake clock, quiescence) + baton scheduler driven by a recorded decision tape; AST instrumenter; reference terminal simterm; tape shrinker; replay files"}
 ],
 "checks": [],
 "not_applicable": [],
 "notes": "VERIF_SEED (default 1) seeds every run: run i uses splitmix64(VERIF_SEED, property, i). Exit 0 = held on everything explored; 1 + 'VIOLATION property=<id> replay=<path>'; 2 = build/harness trouble (never a violation). Known findings: /verif/known_findings.json."
}
import importlib.util, os
spec = importlib.util.spec_from_file_location("mt", "/verif/manifest_table.py")
mt = importlib.util.module_from_spec(spec); spec.loader.exec_module(mt)
claimed, na = mt.claimed, mt.na
m["engines"][0]["serves_properties"] = sorted(claimed)
for pid in sorted(claimed):
    c = claimed[pid]
    m["checks"].append({
      "property_id": pid,
      "quick_cmd": f"./check {pid} quick",
      "thorough_cmd": f"./check {pid} thorough",
      "evidence_file": f"/verif/evidence/{pid}.json",
      "replay_cmd_template": "./check --replay {path}",
      "engine": "simrt+simgen+worlds",
      "level_claimed": {"category": c["cat"], "text": c["text"], "design_ref": c["ref"]},
      "level_note": c["note"],
      "technique": c["tech"],
    })
for pid in sorted(na):
    m["not_applicable"].append({"property_id": pid, "reason": na[pid]})
json.dump(m, open("/verif/MANIFEST.json","w"), indent=1)
print("claimed", sorted(claimed), "n/a", sorted(na))
