package vaxis

// Read-only accessors for unexported state, added to the scratch copy by
// /verif (never present in /repo). They replace the build-tag-guarded snapshot
// hooks the property anchors ask for.

// SimCaps reports the capability flags established at start-up.
func (vx *Vaxis) SimCaps() map[string]bool {
	vx.mu.Lock()
	defer vx.mu.Unlock()
	return map[string]bool{
		"sync":           vx.caps.synchronizedUpdate,
		"unicode-core":   vx.caps.unicodeCore,
		"nozwj":          vx.caps.noZWJ,
		"rgb":            vx.caps.rgb,
		"kitty-graphics": vx.caps.kittyGraphics,
		"kitty-keyboard": vx.caps.kittyKeyboard,
		"styled-ul":      vx.caps.styledUnderlines,
		"sixel":          vx.caps.sixels,
		"color-scheme":   vx.caps.colorThemeUpdates,
		"size-chars":     vx.caps.reportSizeChars,
		"size-pixels":    vx.caps.reportSizePixels,
		"osc4":           vx.caps.osc4,
		"osc10":          vx.caps.osc10,
		"osc11":          vx.caps.osc11,
		"osc176":         vx.caps.osc176,
		"in-band-resize": vx.caps.inBandResize,
		"explicit-width": vx.caps.explicitWidth,
	}
}

// SimUserCursorStyle is the cursor style learnt from the DECRQSS reply.
func (vx *Vaxis) SimUserCursorStyle() int {
	vx.mu.Lock()
	defer vx.mu.Unlock()
	return int(vx.userCursorStyle)
}
