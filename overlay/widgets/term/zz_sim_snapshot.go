package term

import "git.sr.ht/~rockorager/vaxis"

// Read-only snapshot of the emulator's state, added to the scratch copy by
// /verif (never present in /repo).

type SimCell struct {
	Grapheme string
	Width    int
	Style    vaxis.Style
	Wrapped  bool
}

type SimSnapshot struct {
	Rows, Cols   int
	RowLens      []int
	Cells        [][]SimCell
	CursorRow    int
	CursorCol    int
	CursorStyle  vaxis.CursorStyle
	CursorShown  bool
	Pen          vaxis.Style
	MarginTop    int
	MarginBottom int
	MarginLeft   int
	MarginRight  int
	LastCol      bool
	AltScreen    bool
	PrimaryRows  int
	AltRows      int
	PrimaryLens  []int
	AltLens      []int
	Modes        map[string]bool
}

// SimSnapshot copies the state under the widget's own mutex.
func (vt *Model) SimSnapshot() SimSnapshot {
	vt.mu.Lock()
	defer vt.mu.Unlock()
	s := SimSnapshot{
		Rows: vt.height(), Cols: vt.width(),
		CursorRow: int(vt.cursor.row), CursorCol: int(vt.cursor.col), CursorStyle: vt.cursor.style, CursorShown: vt.mode.dectcem,
		Pen:       vt.cursor.Style,
		MarginTop: int(vt.margin.top), MarginBottom: int(vt.margin.bottom), MarginLeft: int(vt.margin.left), MarginRight: int(vt.margin.right),
		LastCol: vt.lastCol, AltScreen: vt.mode.smcup,
		PrimaryRows: len(vt.primaryScreen), AltRows: len(vt.altScreen),
	}
	s.Rows = vt.rowsField()
	for _, r := range vt.primaryScreen {
		s.PrimaryLens = append(s.PrimaryLens, len(r))
	}
	for _, r := range vt.altScreen {
		s.AltLens = append(s.AltLens, len(r))
	}
	for _, r := range vt.activeScreen {
		s.RowLens = append(s.RowLens, len(r))
		row := make([]SimCell, len(r))
		for i, c := range r {
			row[i] = SimCell{Grapheme: c.Grapheme, Width: c.Width, Style: c.Style, Wrapped: c.wrapped}
		}
		s.Cells = append(s.Cells, row)
	}
	s.Modes = map[string]bool{
		"decckm": vt.mode.decckm, "deckpam": vt.mode.deckpam, "paste": vt.mode.paste, "mouseButtons": vt.mode.mouseButtons,
		"mouseDrag": vt.mode.mouseDrag, "mouseMotion": vt.mode.mouseMotion, "mouseSGR": vt.mode.mouseSGR, "decawm": vt.mode.decawm,
		"decom": vt.mode.decom, "irm": vt.mode.irm, "smcup": vt.mode.smcup,
	}
	return s
}

func (vt *Model) rowsField() int { return len(vt.activeScreen) }
