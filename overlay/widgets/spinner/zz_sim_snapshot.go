package spinner

// SimSpinning reports whether the spinner's ticker goroutine is (meant to be)
// running. Added to the scratch copy by /verif only.
func (m *Model) SimSpinning() bool {
	m.mu.Lock()
	defer m.mu.Unlock()
	return m.spinning
}
